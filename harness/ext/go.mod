module verif/ext

go 1.19
