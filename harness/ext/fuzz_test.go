//go:build verif

// Native fuzz targets for exported decoders (thorough tier only). They live in their own module
// so that crashers are written under /verif, never under /repo.
package ext

import (
	"bytes"
	"testing"
	"time"

	"github.com/alephium/wormhole-fork/node/pkg/vaa"
	"verif/ext/vh"
)

func seedVAA(payload []byte, nsig int) []byte {
	v := &vaa.VAA{Version: 1, GuardianSetIndex: 3, Timestamp: time.Unix(1700000000, 0), Nonce: 7, Sequence: 9, ConsistencyLevel: 1, EmitterChain: 2, TargetChain: 255,
		EmitterAddress: vaa.Address{31: 4}, Payload: payload}
	for i := 0; i < nsig; i++ {
		v.AddSignature(vh.Key(i), uint8(i))
	}
	b, _ := v.Marshal()
	return b
}

// FuzzUnmarshal: the C05 byte-string oracle (totality, accept <=> reference parser accepts,
// accepted input re-encodes to itself, decoded fields and digest agree with the reference).
func FuzzUnmarshal(f *testing.F) {
	f.Add(seedVAA([]byte{1}, 0))
	f.Add(seedVAA(bytes.Repeat([]byte{0xab}, 999), 1))
	f.Add(seedVAA(bytes.Repeat([]byte{0xcd}, 1001), 2))
	f.Add(seedVAA(bytes.Repeat([]byte{0xef}, 3000), 19))
	f.Add([]byte{})
	f.Add([]byte{1, 0, 0, 0, 0, 255})
	f.Add(bytes.Repeat([]byte{0xff}, 200))
	f.Add(append([]byte{1, 0, 0, 0, 0, 0}, make([]byte, 53)...))
	f.Add(append([]byte{1, 0, 0, 0, 0, 0}, make([]byte, 54)...))
	f.Fuzz(func(t *testing.T, in []byte) {
		input := append([]byte{}, in...)
		v, err := vaa.Unmarshal(in)
		if !bytes.Equal(in, input) {
			t.Fatalf("C05/decoder-mutates-input")
		}
		ref, rerr := vh.RefParse(input)
		if err != nil {
			if v != nil {
				t.Fatalf("C05/partial-result-with-error")
			}
			if rerr == nil {
				t.Fatalf("C05/valid-encoding-rejected: %v", err)
			}
			return
		}
		if v == nil {
			t.Fatalf("C05/nil-without-error")
		}
		out, merr := v.Marshal()
		if merr != nil || !bytes.Equal(out, input) {
			t.Fatalf("C05/accepted-input-not-reencoded")
		}
		if rerr != nil {
			t.Fatalf("C05/accepted-malformed: %v", rerr)
		}
		if [32]byte(v.SigningMsg()) != vh.RefDigest(ref.BodyBytes) || v.Sequence != ref.Body.Sequence || !bytes.Equal(v.Payload, ref.Body.Payload) {
			t.Fatalf("C05/decoded-fields-differ-from-reference")
		}
		// verification never panics on whatever signature bytes were accepted
		_ = v.VerifySignatures(nil)
	})
}
