// Package vh holds helpers shared by every verification harness. It is overlaid into the
// module under test at check time (never committed to /repo) and deliberately does not
// import any package of the code under test: the reference VAA codec and verifier below
// are an independent implementation written from the property statements.
package vh

import (
	"crypto/ecdsa"
	"math/big"
	"sync"

	"github.com/ethereum/go-ethereum/common"
	"github.com/ethereum/go-ethereum/crypto"
)

const PoolSize = 300

var (
	keyOnce sync.Once
	keys    []*ecdsa.PrivateKey
	addrs   []common.Address
)

func initKeys() {
	keys = make([]*ecdsa.PrivateKey, PoolSize)
	addrs = make([]common.Address, PoolSize)
	for i := 0; i < PoolSize; i++ {
		// deterministic scalar: keccak("verif-key" || i) — no entropy involved
		d := crypto.Keccak256([]byte{'v', 'k', byte(i >> 8), byte(i)})
		k, err := crypto.ToECDSA(d)
		if err != nil {
			// astronomically unlikely; fall back to a small scalar
			k, err = crypto.ToECDSA(common.LeftPadBytes(big.NewInt(int64(i+1)).Bytes(), 32))
			if err != nil {
				panic(err)
			}
		}
		keys[i] = k
		addrs[i] = crypto.PubkeyToAddress(k.PublicKey)
	}
}

// Key returns the i-th deterministic key of the pool.
func Key(i int) *ecdsa.PrivateKey {
	keyOnce.Do(initKeys)
	return keys[i%PoolSize]
}

// Addr returns the Ethereum-style address of Key(i).
func Addr(i int) common.Address {
	keyOnce.Do(initKeys)
	return addrs[i%PoolSize]
}

// SignDigest signs a 32-byte digest with pool key i (65-byte r||s||v signature).
func SignDigest(i int, digest []byte) []byte {
	s, err := crypto.Sign(digest, Key(i))
	if err != nil {
		panic(err)
	}
	return s
}

// MirrorS returns the other encoding of the same ECDSA signature: (r, N-s, v^1). It is as valid as the original
// (ecrecover - Go's and the EVM precompile - recovers the same key); signers that do not normalise s produce it.
func MirrorS(sig []byte) []byte {
	out := append([]byte{}, sig...)
	if len(out) != 65 {
		return out
	}
	n := crypto.S256().Params().N
	sv := new(big.Int).SetBytes(out[32:64])
	sv.Sub(n, sv)
	copy(out[32:64], common.LeftPadBytes(sv.Bytes(), 32))
	out[64] ^= 1
	return out
}
