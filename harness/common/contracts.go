package vh

import (
	"encoding/binary"
	"errors"
	"fmt"
	"math/big"

	"github.com/ethereum/go-ethereum/common"
)

// FindLet returns the expression bound by `let name = ...` anywhere in fn (first match).
func (f *RFunc) FindLet(name string) RNode {
	var walk func(stmts []RNode) RNode
	walk = func(stmts []RNode) RNode {
		for _, s := range stmts {
			if s["s"] == "let" {
				for _, n := range strs(s["names"]) {
					if n == name {
						return node(s["e"])
					}
				}
			}
			for _, k := range []string{"then", "else", "body"} {
				if r := walk(nodes(s[k])); r != nil {
					return r
				}
			}
		}
		return nil
	}
	return walk(f.Body)
}

// GuardiansInfo encodes a guardian set the way governance.ral stores it: size byte, then 20-byte keys.
func GuardiansInfo(set []common.Address) []byte {
	out := []byte{byte(len(set))}
	for _, a := range set {
		out = append(out, a.Bytes()...)
	}
	return out
}

type RalphVAA struct {
	EmitterChain, TargetChain uint64
	Emitter                   []byte
	Sequence                  *big.Int
	Payload                   []byte
}

// RalphParseAndVerify runs governance.ral's parseAndVerifyVAA (as extracted from the current
// tree) on wire bytes against one guardian set. A nil error means the contract accepts.
func (c *Contracts) RalphParseAndVerify(wire []byte, setIndex uint32, set []common.Address) (*RalphVAA, error) {
	f := c.File("contracts/governance.ral")
	if f == nil {
		return nil, errors.New("extractor mismatch: governance.ral not extracted")
	}
	in := &Interp{C: c, File: f, Fields: map[string]RVal{}, Stubs: map[string]func([]RVal) ([]RVal, error){
		"getGuardiansInfo": func(args []RVal) ([]RVal, error) {
			idx, ok := args[0].(*big.Int)
			if !ok {
				return nil, errors.New("extractor mismatch: getGuardiansInfo argument")
			}
			if idx.Cmp(U(uint64(setIndex))) != 0 {
				return nil, &Abort{Msg: "InvalidGuardianSetIndex"}
			}
			return []RVal{GuardiansInfo(set)}, nil
		},
	}}
	vals, err := in.Call("parseAndVerifyVAA", append([]byte{}, wire...), false)
	if err != nil {
		return nil, err
	}
	if len(vals) != 5 {
		return nil, fmt.Errorf("extractor mismatch: parseAndVerifyVAA returned %d values", len(vals))
	}
	ec, ok1 := vals[0].(*big.Int)
	tc, ok2 := vals[1].(*big.Int)
	em, ok3 := vals[2].([]byte)
	seq, ok4 := vals[3].(*big.Int)
	pl, ok5 := vals[4].([]byte)
	if !(ok1 && ok2 && ok3 && ok4 && ok5) {
		return nil, errors.New("extractor mismatch: parseAndVerifyVAA return types")
	}
	return &RalphVAA{EmitterChain: ec.Uint64(), TargetChain: tc.Uint64(), Emitter: em, Sequence: seq, Payload: pl}, nil
}

type SolVM struct {
	Fields    map[string]*big.Int
	Sigs      []map[string]*big.Int
	BodyBytes []byte
	Payload   []byte
}

// SolParseVM interprets wire bytes with the read steps extracted from Messages.sol parseVM.
func (c *Contracts) SolParseVM(wire []byte) (*SolVM, error) {
	s := c.Solidity
	if !s.HashDouble || !s.PayloadIsRest {
		return nil, errors.New("extractor mismatch: parseVM no longer hashes/slices the remainder the way the extractor understands")
	}
	vm := &SolVM{Fields: map[string]*big.Int{}}
	idx := 0
	read := func(st SolStep) (*big.Int, error) {
		if idx+st.Width > len(wire) {
			return nil, &Abort{Msg: "out of bounds read"}
		}
		v := new(big.Int).SetBytes(wire[idx : idx+st.Width])
		idx += st.Advance
		return v, nil
	}
	for _, st := range s.ParseVM["header"] {
		v, err := read(st)
		if err != nil {
			return nil, err
		}
		vm.Fields[st.Field] = v
	}
	if s.RequiredVersion != nil && vm.Fields["version"].Cmp(big.NewInt(int64(*s.RequiredVersion))) != 0 {
		return nil, &Abort{Msg: "VM version incompatible"}
	}
	n, ok := vm.Fields["signersLen"]
	if !ok {
		return nil, errors.New("extractor mismatch: signersLen not read in parseVM header")
	}
	for i := 0; i < int(n.Int64()); i++ {
		sig := map[string]*big.Int{}
		for _, st := range s.ParseVM["sig"] {
			v, err := read(st)
			if err != nil {
				return nil, err
			}
			sig[st.Field] = v
		}
		vm.Sigs = append(vm.Sigs, sig)
	}
	if idx > len(wire) {
		return nil, &Abort{Msg: "out of bounds"}
	}
	vm.BodyBytes = append([]byte{}, wire[idx:]...)
	for _, st := range s.ParseVM["body"] {
		v, err := read(st)
		if err != nil {
			return nil, err
		}
		vm.Fields[st.Field] = v
	}
	if idx > len(wire) {
		return nil, &Abort{Msg: "out of bounds"}
	}
	vm.Payload = append([]byte{}, wire[idx:]...)
	return vm, nil
}

// SolVerify mirrors Messages.sol verifyVM's acceptance with the extracted quorum formula:
// enough signatures, ascending indices below the set size, each recovering to the set's key.
func (c *Contracts) SolVerify(vm *SolVM, set []common.Address) error {
	if len(set) == 0 {
		return &Abort{Msg: "invalid guardian set"}
	}
	q, err := c.SolQuorum(len(set))
	if err != nil {
		return err
	}
	if big.NewInt(int64(len(vm.Sigs))).Cmp(q) < 0 {
		return &Abort{Msg: "no quorum"}
	}
	digest := RefDigest(vm.BodyBytes)
	last := -1
	for i, s := range vm.Sigs {
		gi := int(s["guardianIndex"].Int64())
		if i > 0 && gi <= last {
			return &Abort{Msg: "signature indices must be ascending"}
		}
		last = gi
		if gi >= len(set) {
			return &Abort{Msg: "guardian index out of bounds"}
		}
		var sig [65]byte
		s["r"].FillBytes(sig[0:32])
		s["s"].FillBytes(sig[32:64])
		v := s["v"].Int64() // toUint8(index) + 27 in the contract; the extractor keeps the raw byte
		sig[64] = byte(v)
		a, err := RefRecover(digest[:], sig[:])
		if err != nil || a != set[gi] {
			return &Abort{Msg: "VM signature invalid"}
		}
	}
	return nil
}

func be16(b []byte) uint16 { return binary.BigEndian.Uint16(b) }
