package vh

import (
	"bytes"
	"encoding/hex"
	"encoding/json"
	"errors"
	"fmt"
	"math/big"
	"os"
	"strings"

	"github.com/ethereum/go-ethereum/crypto"
	"golang.org/x/crypto/blake2b"
)

// A small interpreter for the subset of Ralph (and of Solidity integer expressions) that
// contracts/extract.py turns into a JSON AST. It is the "contract side" of the
// cross-language checks: layouts and formulas are *read from the contract sources of the
// current tree*, never restated by hand in the harness.

type RNode = map[string]any

type RFunc struct {
	Name   string   `json:"name"`
	Params []string `json:"params"`
	Body   []RNode  `json:"body"`
}

type RFile struct {
	Consts    map[string]RNode  `json:"consts"`
	Functions map[string]*RFunc `json:"functions"`
	Event     []string          `json:"event_WormholeMessage"`
}

type SolStep struct {
	Field   string `json:"field"`
	Reader  string `json:"reader"`
	Width   int    `json:"width"`
	Advance int    `json:"advance"`
}

type Contracts struct {
	Ralph    map[string]json.RawMessage `json:"ralph"`
	Solidity struct {
		Quorum struct {
			Param    string  `json:"param"`
			Expr     RNode   `json:"expr"`
			Requires []RNode `json:"requires"`
		} `json:"quorum"`
		ParseVM         map[string][]SolStep `json:"parseVM"`
		HashDouble      bool                 `json:"hash_is_double_keccak_of_rest_after_signatures"`
		PayloadIsRest   bool                 `json:"payload_is_rest"`
		RequiredVersion *int                 `json:"required_version"`
	} `json:"solidity"`
	files  map[string]*RFile
	shared map[string]RNode
}

// LoadContracts reads the extraction the driver produced (VERIF_CONTRACTS).
func LoadContracts() (*Contracts, error) {
	p := os.Getenv("VERIF_CONTRACTS")
	if p == "" {
		return nil, errors.New("VERIF_CONTRACTS not set")
	}
	b, err := os.ReadFile(p)
	if err != nil {
		return nil, err
	}
	c := &Contracts{files: map[string]*RFile{}}
	if err := json.Unmarshal(b, c); err != nil {
		return nil, err
	}
	for k, raw := range c.Ralph {
		if k == "shared_consts" {
			if err := json.Unmarshal(raw, &c.shared); err != nil {
				return nil, err
			}
			continue
		}
		f := &RFile{}
		if err := json.Unmarshal(raw, f); err != nil {
			return nil, err
		}
		c.files[k] = f
	}
	return c, nil
}

func (c *Contracts) File(suffix string) *RFile {
	for k, f := range c.files {
		if strings.HasSuffix(k, suffix) {
			return f
		}
	}
	return nil
}

// ---------------------------------------------------------------- values

type RVal any // *big.Int | []byte | bool | []RVal (tuple) | nil (unit)

type Abort struct {
	Msg  string
	Code string // ErrorCodes member of a failed assert!, empty for built-in aborts (slice bounds, width mismatch, overflow)
}

func (a *Abort) Error() string { return "contract aborts: " + a.Msg }

type returnSignal struct{ vals []RVal }

// EffectCall records a built-in or foreign call the interpreter does not model (token
// transfers, migrations, calls into other contracts) together with its evaluated arguments.
type EffectCall struct {
	Name string
	Args []RVal
}

// Interp executes extracted functions. Stubs supplies the environment the function lives in
// (other contract functions, fields); unknown *effect* built-ins are recorded and ignored.
type Interp struct {
	C           *Contracts
	File        *RFile
	Fields      map[string]RVal                              // contract fields / parameters visible as identifiers
	Stubs       map[string]func(args []RVal) ([]RVal, error) // user-defined functions called by name (also "obj.method")
	Effects     []string
	EffectCalls []EffectCall
	Emitted     [][]RVal
	steps       int
}

var u256Max = new(big.Int).Sub(new(big.Int).Lsh(big.NewInt(1), 256), big.NewInt(1))

func (in *Interp) Call(fn string, args ...RVal) ([]RVal, error) {
	f := in.File.Functions[fn]
	if f == nil {
		return nil, fmt.Errorf("extractor mismatch: function %s not extracted", fn)
	}
	if len(args) != len(f.Params) {
		return nil, fmt.Errorf("extractor mismatch: %s takes %d parameters, harness passes %d", fn, len(f.Params), len(args))
	}
	env := map[string]RVal{}
	for i, p := range f.Params {
		env[p] = args[i]
	}
	ret, err := in.block(f.Body, env)
	if err != nil {
		return nil, err
	}
	if ret != nil {
		return ret.vals, nil
	}
	return nil, nil
}

func (in *Interp) block(stmts []RNode, env map[string]RVal) (*returnSignal, error) {
	for _, s := range stmts {
		in.steps++
		if in.steps > 2_000_000 {
			return nil, errors.New("extractor mismatch: interpreter step budget exhausted")
		}
		switch s["s"] {
		case "let":
			v, err := in.eval(node(s["e"]), env)
			if err != nil {
				return nil, err
			}
			names := strs(s["names"])
			if len(names) == 1 {
				env[names[0]] = v
			} else {
				t, ok := v.([]RVal)
				if !ok || len(t) != len(names) {
					return nil, fmt.Errorf("extractor mismatch: destructuring %v from a non-tuple", names)
				}
				for i, n := range names {
					env[n] = t[i]
				}
			}
		case "assign":
			v, err := in.eval(node(s["e"]), env)
			if err != nil {
				return nil, err
			}
			tgt := node(s["target"])
			switch tgt["t"] {
			case "id":
				n := tgt["n"].(string)
				if _, local := env[n]; local {
					env[n] = v
				} else {
					in.Fields[n] = v
					in.Effects = append(in.Effects, "field:"+n)
				}
			case "index":
				o := node(tgt["o"])
				i, err := in.eval(node(tgt["i"]), env)
				if err != nil {
					return nil, err
				}
				if o["t"] != "id" {
					return nil, errors.New("extractor mismatch: assignment to a computed array")
				}
				key := fmt.Sprintf("%s[%v]", o["n"], i)
				in.Fields[key] = v
				in.Effects = append(in.Effects, "field:"+key)
			default:
				return nil, errors.New("extractor mismatch: assignment target")
			}
		case "return":
			var vals []RVal
			for _, e := range nodes(s["es"]) {
				v, err := in.eval(e, env)
				if err != nil {
					return nil, err
				}
				vals = append(vals, v)
			}
			return &returnSignal{vals}, nil
		case "if":
			c, err := in.eval(node(s["c"]), env)
			if err != nil {
				return nil, err
			}
			b, ok := c.(bool)
			if !ok {
				return nil, errors.New("extractor mismatch: non-boolean condition")
			}
			branch := nodes(s["then"])
			if !b {
				branch = nodes(s["else"])
			}
			if r, err := in.block(branch, env); err != nil || r != nil {
				return r, err
			}
		case "for":
			if r, err := in.block([]RNode{node(s["init"])}, env); err != nil || r != nil {
				return r, err
			}
			for {
				c, err := in.eval(node(s["c"]), env)
				if err != nil {
					return nil, err
				}
				if b, _ := c.(bool); !b {
					break
				}
				if r, err := in.block(nodes(s["body"]), env); err != nil || r != nil {
					return r, err
				}
				if r, err := in.block([]RNode{node(s["upd"])}, env); err != nil || r != nil {
					return r, err
				}
			}
		case "while":
			for {
				c, err := in.eval(node(s["c"]), env)
				if err != nil {
					return nil, err
				}
				if b, _ := c.(bool); !b {
					break
				}
				if r, err := in.block(nodes(s["body"]), env); err != nil || r != nil {
					return r, err
				}
			}
		case "emit":
			var vals []RVal
			for _, e := range nodes(s["args"]) {
				v, err := in.eval(e, env)
				if err != nil {
					return nil, err
				}
				vals = append(vals, v)
			}
			in.Emitted = append(in.Emitted, vals)
		case "expr":
			if _, err := in.eval(node(s["e"]), env); err != nil {
				return nil, err
			}
		default:
			return nil, fmt.Errorf("extractor mismatch: statement kind %v", s["s"])
		}
	}
	return nil, nil
}

func node(x any) RNode {
	if m, ok := x.(map[string]any); ok {
		return m
	}
	return RNode{}
}
func nodes(x any) []RNode {
	l, _ := x.([]any)
	out := make([]RNode, 0, len(l))
	for _, e := range l {
		out = append(out, node(e))
	}
	return out
}
func strs(x any) []string {
	l, _ := x.([]any)
	out := make([]string, 0, len(l))
	for _, e := range l {
		s, _ := e.(string)
		out = append(out, s)
	}
	return out
}

func (in *Interp) lookupConst(name string, env map[string]RVal) (RVal, bool, error) {
	if in.File != nil {
		if n, ok := in.File.Consts[name]; ok {
			v, err := in.eval(n, env)
			return v, true, err
		}
	}
	if in.C != nil {
		if n, ok := in.C.shared[name]; ok {
			v, err := in.eval(n, env)
			return v, true, err
		}
	}
	return nil, false, nil
}

func (in *Interp) eval(e RNode, env map[string]RVal) (RVal, error) {
	switch e["t"] {
	case "num":
		n, ok := new(big.Int).SetString(e["v"].(string), 10)
		if !ok {
			return nil, errors.New("extractor mismatch: bad number")
		}
		return n, nil
	case "bytes":
		b, err := hex.DecodeString(e["v"].(string))
		if err != nil {
			return nil, errors.New("extractor mismatch: bad byte literal")
		}
		return b, nil
	case "bool":
		return e["v"].(bool), nil
	case "id":
		n := e["n"].(string)
		if v, ok := env[n]; ok {
			return v, nil
		}
		if v, ok := in.Fields[n]; ok {
			return v, nil
		}
		if v, ok, err := in.lookupConst(n, env); ok {
			return v, err
		}
		return nil, fmt.Errorf("extractor mismatch: unknown identifier %s", n)
	case "member":
		o := node(e["o"])
		if o["t"] == "id" {
			full := o["n"].(string) + "." + e["n"].(string)
			if v, ok := in.Fields[full]; ok {
				return v, nil
			}
			if v, ok, err := in.lookupConst(full, env); ok {
				return v, err
			}
			if o["n"].(string) == "ErrorCodes" {
				return big.NewInt(0), nil
			}
		}
		return nil, fmt.Errorf("extractor mismatch: unknown member %v", e["n"])
	case "index":
		o := node(e["o"])
		i, err := in.eval(node(e["i"]), env)
		if err != nil {
			return nil, err
		}
		if o["t"] == "id" {
			key := fmt.Sprintf("%s[%v]", o["n"], i)
			if v, ok := in.Fields[key]; ok {
				return v, nil
			}
		}
		return nil, fmt.Errorf("extractor mismatch: unknown indexed field %v", o["n"])
	case "un":
		x, err := in.eval(node(e["x"]), env)
		if err != nil {
			return nil, err
		}
		switch e["op"] {
		case "!":
			b, ok := x.(bool)
			if !ok {
				return nil, errors.New("extractor mismatch: ! on non-bool")
			}
			return !b, nil
		case "-":
			n, ok := x.(*big.Int)
			if !ok {
				return nil, errors.New("extractor mismatch: - on non-number")
			}
			return new(big.Int).Neg(n), nil
		}
	case "bin":
		return in.bin(e, env)
	case "call":
		return in.call(e["f"].(string), nodes(e["args"]), env)
	case "mcall":
		o := node(e["o"])
		name := e["f"].(string)
		if o["t"] == "id" {
			name = o["n"].(string) + "." + name
		} else {
			name = "?." + name
		}
		return in.call(name, nodes(e["args"]), env)
	}
	return nil, fmt.Errorf("extractor mismatch: expression kind %v", e["t"])
}

func (in *Interp) bin(e RNode, env map[string]RVal) (RVal, error) {
	op := e["op"].(string)
	l, err := in.eval(node(e["l"]), env)
	if err != nil {
		return nil, err
	}
	if op == "&&" || op == "||" {
		lb, ok := l.(bool)
		if !ok {
			return nil, errors.New("extractor mismatch: logical operator on non-bool")
		}
		if op == "&&" && !lb {
			return false, nil
		}
		if op == "||" && lb {
			return true, nil
		}
		r, err := in.eval(node(e["r"]), env)
		if err != nil {
			return nil, err
		}
		rb, ok := r.(bool)
		if !ok {
			return nil, errors.New("extractor mismatch: logical operator on non-bool")
		}
		return rb, nil
	}
	r, err := in.eval(node(e["r"]), env)
	if err != nil {
		return nil, err
	}
	switch op {
	case "++":
		lb, ok1 := l.([]byte)
		rb, ok2 := r.([]byte)
		if !ok1 || !ok2 {
			return nil, errors.New("extractor mismatch: ++ on non-bytes")
		}
		return append(append([]byte{}, lb...), rb...), nil
	case "==", "!=":
		eq, err := valEq(l, r)
		if err != nil {
			return nil, err
		}
		return eq == (op == "=="), nil
	}
	ln, ok1 := l.(*big.Int)
	rn, ok2 := r.(*big.Int)
	if !ok1 || !ok2 {
		return nil, fmt.Errorf("extractor mismatch: arithmetic %s on non-numbers", op)
	}
	switch op {
	case "<":
		return ln.Cmp(rn) < 0, nil
	case "<=":
		return ln.Cmp(rn) <= 0, nil
	case ">":
		return ln.Cmp(rn) > 0, nil
	case ">=":
		return ln.Cmp(rn) >= 0, nil
	}
	out := new(big.Int)
	switch op {
	case "+":
		out.Add(ln, rn)
	case "-":
		out.Sub(ln, rn)
	case "*":
		out.Mul(ln, rn)
	case "/":
		if rn.Sign() == 0 {
			return nil, &Abort{Msg: "division by zero"}
		}
		out.Quo(ln, rn)
	case "%":
		if rn.Sign() == 0 {
			return nil, &Abort{Msg: "division by zero"}
		}
		out.Rem(ln, rn)
	default:
		return nil, fmt.Errorf("extractor mismatch: operator %s", op)
	}
	// checked arithmetic: results live in [-2^255, 2^256)
	if out.Cmp(u256Max) > 0 || out.Cmp(new(big.Int).Neg(new(big.Int).Lsh(big.NewInt(1), 255))) < 0 {
		return nil, &Abort{Msg: "arithmetic overflow"}
	}
	return out, nil
}

func valEq(l, r RVal) (bool, error) {
	switch a := l.(type) {
	case *big.Int:
		b, ok := r.(*big.Int)
		if !ok {
			return false, errors.New("extractor mismatch: comparing number with non-number")
		}
		return a.Cmp(b) == 0, nil
	case []byte:
		b, ok := r.([]byte)
		if !ok {
			return false, errors.New("extractor mismatch: comparing bytes with non-bytes")
		}
		return bytes.Equal(a, b), nil
	case bool:
		b, ok := r.(bool)
		if !ok {
			return false, errors.New("extractor mismatch: comparing bool with non-bool")
		}
		return a == b, nil
	}
	return false, errors.New("extractor mismatch: comparing unsupported values")
}

func (in *Interp) call(name string, argNodes []RNode, env map[string]RVal) (RVal, error) {
	args := make([]RVal, 0, len(argNodes))
	for _, a := range argNodes {
		v, err := in.eval(a, env)
		if err != nil {
			return nil, err
		}
		args = append(args, v)
	}
	num := func(i int) (*big.Int, error) {
		if i >= len(args) {
			return nil, fmt.Errorf("extractor mismatch: %s: missing argument", name)
		}
		n, ok := args[i].(*big.Int)
		if !ok {
			return nil, fmt.Errorf("extractor mismatch: %s: argument %d is not a number", name, i)
		}
		return n, nil
	}
	byt := func(i int) ([]byte, error) {
		if i >= len(args) {
			return nil, fmt.Errorf("extractor mismatch: %s: missing argument", name)
		}
		b, ok := args[i].([]byte)
		if !ok {
			return nil, fmt.Errorf("extractor mismatch: %s: argument %d is not a byte vector", name, i)
		}
		return b, nil
	}
	switch {
	case name == "assert!":
		b, ok := args[0].(bool)
		if !ok {
			return nil, errors.New("extractor mismatch: assert! on non-bool")
		}
		if !b {
			code := ""
			if len(argNodes) > 1 {
				if n, ok := argNodes[1]["n"].(string); ok {
					code = n
				}
			}
			return nil, &Abort{Msg: "assertion failed [" + code + "]: " + exprString(argNodes[0]), Code: code}
		}
		return nil, nil
	case name == "panic!":
		return nil, &Abort{Msg: "panic!"}
	case name == "byteVecSlice!":
		b, err := byt(0)
		if err != nil {
			return nil, err
		}
		from, err := num(1)
		if err != nil {
			return nil, err
		}
		to, err := num(2)
		if err != nil {
			return nil, err
		}
		if from.Sign() < 0 || to.Cmp(big.NewInt(int64(len(b)))) > 0 || from.Cmp(to) > 0 {
			return nil, &Abort{Msg: fmt.Sprintf("byteVecSlice!(len %d, %v, %v) out of range", len(b), from, to)}
		}
		return append([]byte{}, b[from.Int64():to.Int64()]...), nil
	case name == "size!":
		b, err := byt(0)
		if err != nil {
			return nil, err
		}
		return big.NewInt(int64(len(b))), nil
	case strings.HasPrefix(name, "u256From") && strings.HasSuffix(name, "Byte!"):
		var n int
		fmt.Sscanf(name, "u256From%dByte!", &n)
		b, err := byt(0)
		if err != nil {
			return nil, err
		}
		if len(b) != n {
			return nil, &Abort{Msg: fmt.Sprintf("%s on %d bytes", name, len(b))}
		}
		return new(big.Int).SetBytes(b), nil
	case strings.HasPrefix(name, "u256To") && strings.HasSuffix(name, "Byte!"):
		var n int
		fmt.Sscanf(name, "u256To%dByte!", &n)
		v, err := num(0)
		if err != nil {
			return nil, err
		}
		if v.Sign() < 0 || v.BitLen() > 8*n {
			return nil, &Abort{Msg: fmt.Sprintf("%s(%v) does not fit", name, v)}
		}
		out := make([]byte, n)
		v.FillBytes(out)
		return out, nil
	case name == "toI256!" || name == "toU256!":
		return num(0)
	case name == "keccak256!":
		b, err := byt(0)
		if err != nil {
			return nil, err
		}
		return crypto.Keccak256(b), nil
	case name == "ethEcRecover!":
		h, err := byt(0)
		if err != nil {
			return nil, err
		}
		s, err := byt(1)
		if err != nil {
			return nil, err
		}
		if len(h) != 32 || len(s) != 65 {
			return nil, &Abort{Msg: "ethEcRecover! argument sizes"}
		}
		sig := append([]byte{}, s...)
		if sig[64] != 27 && sig[64] != 28 {
			return nil, &Abort{Msg: "ethEcRecover! recovery id"}
		}
		sig[64] -= 27
		pub, rerr := crypto.Ecrecover(h, sig)
		if rerr != nil {
			return nil, &Abort{Msg: "ethEcRecover! failed"}
		}
		return crypto.Keccak256(pub[1:])[12:], nil
	case name == "byteVecToAddress!" || name == "toByteVec!" || name == "addressToByteVec!" || name == "contractIdToAddress!":
		if len(args) != 1 {
			return nil, fmt.Errorf("extractor mismatch: %s arity", name)
		}
		return args[0], nil
	case name == "isAssetAddress!":
		if st, ok := in.Stubs[name]; ok {
			vals, err := st(args)
			if err != nil || len(vals) != 1 {
				return nil, err
			}
			return vals[0], nil
		}
		return true, nil
	case name == "blake2b!":
		b, err := byt(0)
		if err != nil {
			return nil, err
		}
		h := blake2b.Sum256(b)
		return h[:], nil
	case name == "callerContractId!" || name == "selfContractId!" || name == "blockTimeStamp!":
		if v, ok := in.Fields[name]; ok {
			return v, nil
		}
		return nil, fmt.Errorf("extractor mismatch: harness did not provide %s", name)
	}
	if st, ok := in.Stubs[name]; ok {
		vals, err := st(args)
		if err != nil {
			return nil, err
		}
		switch len(vals) {
		case 0:
			return nil, nil
		case 1:
			return vals[0], nil
		}
		return vals, nil
	}
	if _, ok := in.File.Functions[name]; ok && in.File != nil {
		sub := &Interp{C: in.C, File: in.File, Fields: in.Fields, Stubs: in.Stubs}
		vals, err := sub.Call(name, args...)
		in.Effects = append(in.Effects, sub.Effects...)
		in.EffectCalls = append(in.EffectCalls, sub.EffectCalls...)
		in.Emitted = append(in.Emitted, sub.Emitted...)
		if err != nil {
			return nil, err
		}
		switch len(vals) {
		case 0:
			return nil, nil
		case 1:
			return vals[0], nil
		}
		return vals, nil
	}
	if strings.HasSuffix(name, "!") || strings.Contains(name, ".") {
		// an effect (token transfer, migration, sub-contract call): recorded, not modelled
		in.Effects = append(in.Effects, name)
		in.EffectCalls = append(in.EffectCalls, EffectCall{Name: name, Args: args})
		if name == "subContractId!" && len(args) == 1 {
			return args[0], nil
		}
		return nil, nil
	}
	if len(name) > 0 && name[0] >= 'A' && name[0] <= 'Z' && len(args) == 1 {
		return args[0], nil // contract cast: TokenBridgeForChain(id)
	}
	return nil, fmt.Errorf("extractor mismatch: call of unknown function %s", name)
}

func exprString(e RNode) string {
	b, _ := json.Marshal(e)
	s := string(b)
	if len(s) > 300 {
		s = s[:300]
	}
	return s
}

// EvalInt evaluates an integer expression (used for the Solidity quorum formula).
func EvalInt(e RNode, vars map[string]*big.Int) (*big.Int, error) {
	in := &Interp{Fields: map[string]RVal{}, File: &RFile{}}
	env := map[string]RVal{}
	for k, v := range vars {
		env[k] = v
	}
	v, err := in.eval(e, env)
	if err != nil {
		return nil, err
	}
	n, ok := v.(*big.Int)
	if !ok {
		return nil, errors.New("extractor mismatch: expression is not an integer")
	}
	return n, nil
}

// SolQuorum evaluates Messages.sol quorum(n): its require statements first (a failing one reverts: *Abort), then the
// returned expression.
func (c *Contracts) SolQuorum(n int) (*big.Int, error) {
	vars := map[string]*big.Int{c.Solidity.Quorum.Param: big.NewInt(int64(n))}
	for _, r := range c.Solidity.Quorum.Requires {
		in := &Interp{Fields: map[string]RVal{}, File: &RFile{}}
		env := map[string]RVal{}
		for k, v := range vars {
			env[k] = v
		}
		v, err := in.eval(r, env)
		if err != nil {
			return nil, err
		}
		ok, isBool := v.(bool)
		if !isBool {
			return nil, errors.New("extractor mismatch: require condition is not a boolean")
		}
		if !ok {
			return nil, &Abort{Msg: "require failed in quorum()"}
		}
	}
	return EvalInt(c.Solidity.Quorum.Expr, vars)
}

func U(n uint64) *big.Int { return new(big.Int).SetUint64(n) }

// IsMismatch tells harness/extractor disagreements (exit 2) from contract aborts (a verdict).
func IsAbort(err error) bool {
	var a *Abort
	return errors.As(err, &a)
}

// AbortCode returns the error-code name of a contract abort ("" for built-in aborts) and whether err is an abort.
func AbortCode(err error) (string, bool) {
	var a *Abort
	if errors.As(err, &a) {
		return a.Code, true
	}
	return "", false
}
