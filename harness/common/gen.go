package vh

import (
	"crypto/sha256"
	"encoding/binary"
	"encoding/hex"
	"encoding/json"

	"pgregory.net/rapid"
)

// Expand deterministically stretches a seed into n bytes (SHA-256 in counter mode). Cases
// carry (seed, length) instead of raw bytes so that they stay small and shrink well.
func Expand(seed uint64, n int) []byte {
	out := make([]byte, 0, n+32)
	var ctr [16]byte
	binary.BigEndian.PutUint64(ctr[:8], seed)
	for i := uint64(0); len(out) < n; i++ {
		binary.BigEndian.PutUint64(ctr[8:], i)
		h := sha256.Sum256(ctr[:])
		out = append(out, h[:]...)
	}
	return out[:n]
}

// HexBytes marshals as a hex string in JSON.
type HexBytes []byte

func (h HexBytes) MarshalJSON() ([]byte, error) { return json.Marshal(hex.EncodeToString(h)) }
func (h *HexBytes) UnmarshalJSON(b []byte) error {
	var s string
	if err := json.Unmarshal(b, &s); err != nil {
		return err
	}
	d, err := hex.DecodeString(s)
	if err != nil {
		return err
	}
	*h = d
	return nil
}

// BodyCase is the JSON form of a generated message body.
type BodyCase struct {
	Ts      uint32 `json:"ts"`
	Nonce   uint32 `json:"nonce"`
	EC      uint16 `json:"ec"`
	TC      uint16 `json:"tc"`
	AddrSel int    `json:"addr"` // selects the emitter address: 0 zero, 1 ones, 2 0..31, 3.. expanded from seed
	Seq     uint64 `json:"seq"`
	CL      uint8  `json:"cl"`
	PLen    int    `json:"plen"`
	PSeed   uint64 `json:"pseed"`
}

func EmitterFromSel(sel int) [32]byte {
	var a [32]byte
	switch sel {
	case 0:
	case 1:
		for i := range a {
			a[i] = 0xff
		}
	case 2:
		for i := range a {
			a[i] = byte(i)
		}
	case 3:
		a[31] = 4 // the usual governance emitter
	default:
		copy(a[:], Expand(uint64(sel), 32))
	}
	return a
}

func (c BodyCase) Body() Body {
	return Body{Timestamp: c.Ts, Nonce: c.Nonce, EmitterChain: c.EC, TargetChain: c.TC, Emitter: EmitterFromSel(c.AddrSel), Sequence: c.Seq, CL: c.CL, Payload: Expand(c.PSeed, c.PLen)}
}

func U32Edge() *rapid.Generator[uint32] {
	return rapid.OneOf(rapid.Uint32(), rapid.SampledFrom([]uint32{0, 1, 255, 256, 65535, 65536, 1<<31 - 1, 1 << 31, 1<<32 - 1}))
}
func U16Edge() *rapid.Generator[uint16] {
	return rapid.OneOf(rapid.Uint16(), rapid.SampledFrom([]uint16{0, 1, 2, 4, 10, 255, 256, 10001, 65535}))
}
func U64Edge() *rapid.Generator[uint64] {
	return rapid.OneOf(rapid.Uint64(), rapid.Uint64Range(0, 50), rapid.SampledFrom([]uint64{0, 1, 255, 256, 1<<32 - 1, 1 << 32, 1<<63 - 1, 1 << 63, 1<<64 - 1}))
}
func U8Edge() *rapid.Generator[uint8] {
	return rapid.OneOf(rapid.Uint8(), rapid.SampledFrom([]uint8{0, 1, 15, 32, 127, 128, 200, 255}))
}

// PayloadLen draws a payload length in [min,max] biased to the listed boundaries.
func PayloadLen(min, max int, edges ...int) *rapid.Generator[int] {
	var ok []int
	for _, e := range edges {
		for _, d := range []int{-1, 0, 1} {
			if e+d >= min && e+d <= max {
				ok = append(ok, e+d)
			}
		}
	}
	gens := []*rapid.Generator[int]{rapid.IntRange(min, max), rapid.IntRange(min, minInt(max, min+64))}
	if len(ok) > 0 {
		gens = append(gens, rapid.SampledFrom(ok))
	}
	small := rapid.OneOf(gens...)
	if max < 3000 {
		return small
	}
	// The wire format carries no payload length: whatever follows the fixed fields is payload, so nothing bounds it
	// but the transport. One case in twenty takes a length around the powers of two where a width or a buffer
	// bound would sit.
	big := rapid.SampledFrom([]int{16383, 16384, 32767, 32768, 65534, 65535, 65536, 65537, 70000, 131071, 131072, 200000})
	return rapid.Custom(func(t *rapid.T) int {
		if rapid.IntRange(0, 19).Draw(t, "bigpayload") == 0 {
			return big.Draw(t, "biglen")
		}
		return small.Draw(t, "len")
	})
}

func minInt(a, b int) int {
	if a < b {
		return a
	}
	return b
}

func GenBody(t *rapid.T, label string, minP, maxP int, edges ...int) BodyCase {
	return BodyCase{
		Ts:      U32Edge().Draw(t, label+".ts"),
		Nonce:   U32Edge().Draw(t, label+".nonce"),
		EC:      U16Edge().Draw(t, label+".ec"),
		TC:      U16Edge().Draw(t, label+".tc"),
		AddrSel: rapid.IntRange(0, 9).Draw(t, label+".addr"),
		Seq:     U64Edge().Draw(t, label+".seq"),
		CL:      U8Edge().Draw(t, label+".cl"),
		PLen:    PayloadLen(minP, maxP, edges...).Draw(t, label+".plen"),
		PSeed:   rapid.Uint64Range(0, 1<<20).Draw(t, label+".pseed"),
	}
}
