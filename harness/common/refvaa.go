package vh

import (
	"encoding/binary"
	"errors"
	"fmt"

	"github.com/ethereum/go-ethereum/common"
	"github.com/ethereum/go-ethereum/crypto"
)

// Body is the signed part of a VAA as the property statements describe it.
type Body struct {
	Timestamp    uint32 `json:"ts"`
	Nonce        uint32 `json:"nonce"`
	EmitterChain uint16 `json:"ec"`
	TargetChain  uint16 `json:"tc"`
	Emitter      [32]byte
	Sequence     uint64 `json:"seq"`
	CL           uint8  `json:"cl"`
	Payload      []byte `json:"payload"`
}

type RefSig struct {
	Index uint8
	Sig   [65]byte
}

type Parsed struct {
	Version   uint8
	GSIndex   uint32
	Sigs      []RefSig
	Body      Body
	BodyBytes []byte
}

// RefBody: be32(ts) be32(nonce) be16(emitterChain) be16(targetChain) addr32 be64(seq) u8(cl) payload
func RefBody(b Body) []byte {
	out := make([]byte, 0, 53+len(b.Payload))
	var t [8]byte
	binary.BigEndian.PutUint32(t[:4], b.Timestamp)
	out = append(out, t[:4]...)
	binary.BigEndian.PutUint32(t[:4], b.Nonce)
	out = append(out, t[:4]...)
	binary.BigEndian.PutUint16(t[:2], b.EmitterChain)
	out = append(out, t[:2]...)
	binary.BigEndian.PutUint16(t[:2], b.TargetChain)
	out = append(out, t[:2]...)
	out = append(out, b.Emitter[:]...)
	binary.BigEndian.PutUint64(t[:8], b.Sequence)
	out = append(out, t[:8]...)
	out = append(out, b.CL)
	out = append(out, b.Payload...)
	return out
}

const BodyFixedLen = 53

func RefParseBody(bb []byte) (Body, error) {
	var b Body
	if len(bb) < BodyFixedLen {
		return b, errors.New("body too short")
	}
	b.Timestamp = binary.BigEndian.Uint32(bb[0:4])
	b.Nonce = binary.BigEndian.Uint32(bb[4:8])
	b.EmitterChain = binary.BigEndian.Uint16(bb[8:10])
	b.TargetChain = binary.BigEndian.Uint16(bb[10:12])
	copy(b.Emitter[:], bb[12:44])
	b.Sequence = binary.BigEndian.Uint64(bb[44:52])
	b.CL = bb[52]
	b.Payload = append([]byte{}, bb[53:]...)
	return b, nil
}

// RefDigest = keccak256(keccak256(body))
func RefDigest(body []byte) [32]byte {
	var d [32]byte
	copy(d[:], crypto.Keccak256(crypto.Keccak256(body)))
	return d
}

// RefMarshal builds the wire form: version, be32 set index, u8 nsigs, nsigs*(u8 idx, 65 sig), body.
func RefMarshal(version uint8, gsIndex uint32, sigs []RefSig, body []byte) []byte {
	out := make([]byte, 0, 6+66*len(sigs)+len(body))
	out = append(out, version)
	var t [4]byte
	binary.BigEndian.PutUint32(t[:], gsIndex)
	out = append(out, t[:]...)
	out = append(out, uint8(len(sigs)))
	for _, s := range sigs {
		out = append(out, s.Index)
		out = append(out, s.Sig[:]...)
	}
	out = append(out, body...)
	return out
}

// RefParse is the total left inverse of RefMarshal. It accepts exactly: version 1, a full
// header and signature block, a full fixed body and a non-empty payload.
func RefParse(data []byte) (*Parsed, error) {
	if len(data) < 6 {
		return nil, errors.New("short header")
	}
	p := &Parsed{Version: data[0], GSIndex: binary.BigEndian.Uint32(data[1:5])}
	if p.Version != 1 {
		return nil, fmt.Errorf("version %d", p.Version)
	}
	n := int(data[5])
	off := 6
	if len(data) < off+66*n {
		return nil, errors.New("short signatures")
	}
	for i := 0; i < n; i++ {
		var s RefSig
		s.Index = data[off]
		copy(s.Sig[:], data[off+1:off+66])
		p.Sigs = append(p.Sigs, s)
		off += 66
	}
	p.BodyBytes = append([]byte{}, data[off:]...)
	b, err := RefParseBody(p.BodyBytes)
	if err != nil {
		return nil, err
	}
	if len(b.Payload) == 0 {
		return nil, errors.New("empty payload")
	}
	p.Body = b
	return p, nil
}

func RefQuorum(n int) int { return 2*n/3 + 1 }

// RefRecover returns the address that signed digest, or an error.
func RefRecover(digest []byte, sig []byte) (common.Address, error) {
	if len(sig) != 65 {
		return common.Address{}, errors.New("signature length")
	}
	pub, err := crypto.Ecrecover(digest, sig)
	if err != nil {
		return common.Address{}, err
	}
	return common.BytesToAddress(crypto.Keccak256(pub[1:])[12:]), nil
}

// RefVerifySigs: every index < len(set), strictly ascending, each recovers over digest to
// set[idx], recovered signers pairwise distinct. With needQuorum also len(sigs) >= 2n/3+1.
func RefVerifySigs(digest [32]byte, sigs []RefSig, set []common.Address, needQuorum bool) error {
	if needQuorum && len(sigs) < RefQuorum(len(set)) {
		return fmt.Errorf("only %d signatures, quorum of %d is %d", len(sigs), len(set), RefQuorum(len(set)))
	}
	last := -1
	seen := map[common.Address]bool{}
	for i, s := range sigs {
		if int(s.Index) >= len(set) {
			return fmt.Errorf("sig %d: index %d out of range %d", i, s.Index, len(set))
		}
		if int(s.Index) <= last {
			return fmt.Errorf("sig %d: index %d not ascending after %d", i, s.Index, last)
		}
		last = int(s.Index)
		a, err := RefRecover(digest[:], s.Sig[:])
		if err != nil {
			return fmt.Errorf("sig %d: %v", i, err)
		}
		if a != set[s.Index] {
			return fmt.Errorf("sig %d: recovers to %s, set[%d]=%s", i, a.Hex(), s.Index, set[s.Index].Hex())
		}
		if seen[a] {
			return fmt.Errorf("sig %d: signer %s counted twice", i, a.Hex())
		}
		seen[a] = true
	}
	return nil
}

// RefVerifyVAA parses wire bytes and verifies them against set with quorum.
func RefVerifyVAA(wire []byte, set []common.Address) (*Parsed, error) {
	p, err := RefParse(wire)
	if err != nil {
		return nil, err
	}
	if len(set) == 0 {
		return p, errors.New("empty guardian set")
	}
	return p, RefVerifySigs(RefDigest(p.BodyBytes), p.Sigs, set, true)
}
