package vh

import (
	"crypto/sha256"
	"encoding/hex"
	"encoding/json"
	"fmt"
	"os"
	"runtime/debug"
	"sort"
	"strconv"
	"strings"
	"sync"
	"testing"

	"pgregory.net/rapid"
)

// Violation is a failed oracle. Fingerprint is a short stable identifier of the *kind* of
// failure ("C10/timeout-before-ready"); it is what rapid sees as the failure message (so
// shrinking stays within one kind) and what the known-findings matcher keys on. Msg carries
// the details and goes to the fail-case file.
type Violation struct {
	Fingerprint string
	Msg         string
}

func V(fp, format string, args ...any) *Violation {
	return &Violation{Fingerprint: fp, Msg: fmt.Sprintf(format, args...)}
}

// Outcome describes what one executed case looked like, for the evidence file.
type Outcome struct {
	NonTrivial bool
	Labels     []string
	// Inconclusive: the case could not be judged (machine starved, step did not settle).
	// It is counted, never reported as a violation.
	Inconclusive bool
}

type stats struct {
	mu           sync.Mutex
	ID           string            `json:"id"`
	Test         string            `json:"test"`
	Evaluations  int               `json:"evaluations"`
	Inconclusive int               `json:"inconclusive"`
	Labels       map[string]int    `json:"labels"`
	Hashes       map[string]bool   `json:"-"`
	HashList     []string          `json:"nontrivial_hashes"`
	Samples      []json.RawMessage `json:"samples"`
	Known        map[string]int    `json:"known_hits"`
	KnownSample  map[string]string `json:"known_samples"`
	Extra        map[string]any    `json:"extra,omitempty"`
}

const maxSamples = 4
const maxSampleBytes = 6000
const maxHashes = 400000

func newStats(id, test string) *stats {
	return &stats{ID: id, Test: test, Labels: map[string]int{}, Hashes: map[string]bool{}, Known: map[string]int{}, KnownSample: map[string]string{}, Extra: map[string]any{}}
}

func (s *stats) record(c any, o Outcome) {
	s.mu.Lock()
	defer s.mu.Unlock()
	s.Evaluations++
	if o.Inconclusive {
		s.Inconclusive++
	}
	for _, l := range o.Labels {
		s.Labels[l]++
	}
	if o.NonTrivial {
		s.Labels["nontrivial"]++
		b, err := json.Marshal(c)
		if err != nil {
			b = []byte(fmt.Sprintf("%#v", c))
		}
		h := sha256.Sum256(b)
		k := hex.EncodeToString(h[:8])
		if !s.Hashes[k] && len(s.Hashes) < maxHashes {
			s.Hashes[k] = true
			if len(s.Samples) < maxSamples && len(b) <= maxSampleBytes {
				s.Samples = append(s.Samples, json.RawMessage(b))
			}
		}
	}
}

func (s *stats) flush() {
	path := os.Getenv("VERIF_STATS")
	if path == "" {
		return
	}
	s.mu.Lock()
	defer s.mu.Unlock()
	s.HashList = s.HashList[:0]
	for k := range s.Hashes {
		s.HashList = append(s.HashList, k)
	}
	sort.Strings(s.HashList)
	b, _ := json.Marshal(s)
	_ = os.WriteFile(path, b, 0o644)
}

type failFile struct {
	Property    string          `json:"property"`
	Test        string          `json:"test"`
	Fingerprint string          `json:"fingerprint"`
	Msg         string          `json:"msg"`
	Case        json.RawMessage `json:"case"`
}

func writeFail(id, test string, v *Violation, c any) {
	path := os.Getenv("VERIF_FAILCASE")
	if path == "" {
		return
	}
	cb, err := json.Marshal(c)
	if err != nil {
		cb, _ = json.Marshal(fmt.Sprintf("%#v", c))
	}
	b, _ := json.MarshalIndent(failFile{Property: id, Test: test, Fingerprint: v.Fingerprint, Msg: v.Msg, Case: cb}, "", " ")
	_ = os.WriteFile(path, b, 0o644)
	// the first (unshrunk) failing case is kept as well: for schedule-dependent failures the shrunk case
	// may fail less reliably than the one that was found
	if _, err := os.Stat(path + ".first"); err != nil {
		_ = os.WriteFile(path+".first", b, 0o644)
	}
}

func knownSet() map[string]bool {
	m := map[string]bool{}
	for _, k := range strings.Split(os.Getenv("VERIF_KNOWN"), ",") {
		if k = strings.TrimSpace(k); k != "" {
			m[k] = true
		}
	}
	return m
}

// Seed returns VERIF_SEED (default 1) for harnesses that are not driven by rapid.
func Seed() uint64 {
	n, err := strconv.ParseUint(os.Getenv("VERIF_SEED"), 10, 64)
	if err != nil {
		return 1
	}
	return n
}

// EnvInt reads an integer knob set by the driver (e.g. VERIF_N).
func EnvInt(name string, def int) int {
	n, err := strconv.Atoi(os.Getenv(name))
	if err != nil {
		return def
	}
	return n
}

func Thorough() bool { return os.Getenv("VERIF_TIER") == "thorough" }

// Prop bundles a property as data: gen draws a Case, run executes it against the code
// under test and judges it. run must be a pure function of the case (plus the code).
type Prop[C any] struct {
	ID  string
	Gen func(t *rapid.T) C
	Run func(c C) (*Violation, Outcome)
}

// safeRun converts a panic inside run (in the harness goroutine) into a violation with the
// fingerprint <ID>/panic, so that crashes of the code under test are reported like any
// other failure and shrink properly.
func safeRun[C any](p Prop[C], c C) (v *Violation, o Outcome) {
	defer func() {
		if r := recover(); r != nil {
			st := string(debug.Stack())
			fp := p.ID + "/panic"
			if panicInHarness(st) {
				fp = "harness/panic"
			}
			v = V(fp, "panic: %v\n%s", r, st)
		}
	}()
	return p.Run(c)
}

// Check is the entry point of every rapid-driven harness test. With VERIF_REPLAY set it
// bypasses rapid and executes the saved case once.
func Check[C any](t *testing.T, p Prop[C]) {
	st := newStats(p.ID, t.Name())
	defer st.flush()
	known := knownSet()

	if rp := os.Getenv("VERIF_REPLAY"); rp != "" {
		b, err := os.ReadFile(rp)
		if err != nil {
			t.Fatalf("replay: %v", err)
		}
		var ff failFile
		if err := json.Unmarshal(b, &ff); err != nil {
			t.Fatalf("replay: %v", err)
		}
		if ff.Test != "" && ff.Test != t.Name() {
			t.Skipf("replay file is for %s", ff.Test)
		}
		var c C
		if err := json.Unmarshal(ff.Case, &c); err != nil {
			t.Fatalf("replay: cannot decode case: %v", err)
		}
		// schedule-dependent units execute the saved case several times (VERIF_REPLAY_REPEAT): the interleaving that
		// exposed the failure is the scheduler's, not part of the case; an inconclusive execution does not count
		repeat := 1
		if n, err := strconv.Atoi(os.Getenv("VERIF_REPLAY_REPEAT")); err == nil && n > 1 {
			repeat = n
		}
		for r := 0; r < repeat; r++ {
			v, o := safeRun(p, c)
			st.record(c, o)
			if v != nil {
				writeFail(p.ID, t.Name(), v, c)
				t.Fatalf("VERIF-VIOLATION %s: %s", v.Fingerprint, v.Msg)
			}
		}
		return
	}

	curPath := os.Getenv("VERIF_CURCASE")
	rapid.Check(t, func(rt *rapid.T) {
		c := p.Gen(rt)
		if curPath != "" {
			// the code under test may take the whole process down (a panic in one of its own goroutines):
			// leave the case behind so that the driver can attribute and replay the crash
			if cb, err := json.Marshal(c); err == nil {
				b, _ := json.Marshal(failFile{Property: p.ID, Test: t.Name(), Fingerprint: p.ID + "/process-crash", Msg: "the test process died while executing this case", Case: cb})
				_ = os.WriteFile(curPath, b, 0o644)
			}
		}
		v, o := safeRun(p, c)
		st.record(c, o)
		if v != nil {
			if known[v.Fingerprint] {
				st.mu.Lock()
				st.Known[v.Fingerprint]++
				if _, ok := st.KnownSample[v.Fingerprint]; !ok {
					st.KnownSample[v.Fingerprint] = v.Msg
				}
				st.mu.Unlock()
				return
			}
			writeFail(p.ID, t.Name(), v, c)
			rt.Fatalf("VERIF-VIOLATION %s", v.Fingerprint)
		}
	})
}

// Plain is the engine for harnesses that enumerate or sample without rapid (exhaustive
// tables, kill cycles). It offers the same recording, known-finding and replay behaviour.
type Plain struct {
	t     *testing.T
	id    string
	st    *stats
	known map[string]bool
}

func NewPlain(t *testing.T, id string) *Plain {
	return &Plain{t: t, id: id, st: newStats(id, t.Name()), known: knownSet()}
}

func (p *Plain) Record(c any, o Outcome) { p.st.record(c, o) }
func (p *Plain) SetExtra(k string, v any) {
	p.st.mu.Lock()
	p.st.Extra[k] = v
	p.st.mu.Unlock()
}
func (p *Plain) Flush() { p.st.flush() }

// Violate reports v for case c; returns true if it was a known finding (caller continues).
func (p *Plain) Violate(v *Violation, c any) bool {
	if p.known[v.Fingerprint] {
		p.st.mu.Lock()
		p.st.Known[v.Fingerprint]++
		if _, ok := p.st.KnownSample[v.Fingerprint]; !ok {
			p.st.KnownSample[v.Fingerprint] = v.Msg
		}
		p.st.mu.Unlock()
		return true
	}
	writeFail(p.id, p.t.Name(), v, c)
	p.st.flush()
	p.t.Fatalf("VERIF-VIOLATION %s: %s", v.Fingerprint, v.Msg)
	return false
}

// ReplayCase loads the case of a replay file into c; ok is false when no replay is requested
// or the file belongs to another test.
func (p *Plain) ReplayCase(c any) bool {
	rp := os.Getenv("VERIF_REPLAY")
	if rp == "" {
		return false
	}
	b, err := os.ReadFile(rp)
	if err != nil {
		p.t.Fatalf("replay: %v", err)
	}
	var ff failFile
	if err := json.Unmarshal(b, &ff); err != nil {
		p.t.Fatalf("replay: %v", err)
	}
	if ff.Test != "" && ff.Test != p.t.Name() {
		p.t.Skipf("replay file is for %s", ff.Test)
	}
	if err := json.Unmarshal(ff.Case, c); err != nil {
		p.t.Fatalf("replay: cannot decode case: %v", err)
	}
	return true
}

// panicInHarness reports whether the frame that raised the panic belongs to harness code
// (overlaid zz_verif_* files or this package) rather than to the code under test.
func panicInHarness(stack string) bool {
	lines := strings.Split(stack, "\n")
	for i, l := range lines {
		if strings.HasPrefix(l, "panic(") {
			// frames follow as pairs (function, file:line); skip runtime frames
			for j := i + 2; j+1 < len(lines); j += 2 {
				file := strings.TrimSpace(lines[j+1])
				if strings.Contains(file, "/runtime/") || strings.Contains(file, "/src/") && !strings.Contains(file, "/pkg/mod/") && strings.Contains(file, "/go-1.") {
					continue
				}
				return strings.Contains(file, "zz_verif_") || strings.Contains(file, "/zzverif/")
			}
		}
	}
	return false
}
