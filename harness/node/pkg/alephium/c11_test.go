//go:build verif

package alephium

import (
	"bytes"
	"encoding/binary"
	"encoding/hex"
	"fmt"
	"math/big"
	"testing"

	sdk "github.com/alephium/go-sdk"
	"github.com/alephium/wormhole-fork/node/pkg/vaa"
	vh "github.com/alephium/wormhole-fork/node/zzverif"
	"github.com/btcsuite/btcutil/base58"
	ethCommon "github.com/ethereum/go-ethereum/common"
	"pgregory.net/rapid"
)

// C11: event fields -> message, against a reference decoder written from the statement.

type valSpec struct {
	T    string `json:"t"`   // U256 | ByteVec | Bool | I256 | Address | nil
	Tag  string `json:"tag"` // the "type" tag carried in the JSON value ("" = the right one)
	Num  string `json:"num"` // decimal string for numeric kinds
	Len  int    `json:"len"` // byte length for ByteVec
	Seed uint64 `json:"seed"`
	Raw  string `json:"raw"` // if set: used verbatim as the hex string of a ByteVec
}

func (v valSpec) val() sdk.Val {
	tag := v.Tag
	switch v.T {
	case "U256":
		if tag == "" {
			tag = "U256"
		}
		return sdk.Val{ValU256: &sdk.ValU256{Value: v.Num, Type: tag}}
	case "I256":
		if tag == "" {
			tag = "I256"
		}
		return sdk.Val{ValI256: &sdk.ValI256{Value: v.Num, Type: tag}}
	case "ByteVec":
		if tag == "" {
			tag = "ByteVec"
		}
		s := hex.EncodeToString(vh.Expand(v.Seed, v.Len))
		if v.Raw != "" {
			s = v.Raw
		}
		return sdk.Val{ValByteVec: &sdk.ValByteVec{Value: s, Type: tag}}
	case "Bool":
		return sdk.Val{ValBool: &sdk.ValBool{Value: true, Type: "Bool"}}
	case "Address":
		return sdk.Val{ValAddress: &sdk.ValAddress{Value: "1DrDyTr9RpRsQnDnXo2YRiPzPW4ooHX5LLoqXrqfMrpQH", Type: "Address"}}
	}
	return sdk.Val{}
}

// refUint: the value if v is a well-formed U256 within [0, max], else ok=false.
func refUint(v valSpec, max *big.Int) (*big.Int, bool) {
	if v.T != "U256" || (v.Tag != "" && v.Tag != "U256") {
		return nil, false
	}
	// any string Go's decimal integer parser accepts denotes a number; whether it fits is decided on its value
	n, ok := new(big.Int).SetString(v.Num, 10)
	if !ok || n.Sign() < 0 || n.Cmp(max) > 0 {
		return nil, false
	}
	return n, true
}

func refBytes(v valSpec, wantLen int) ([]byte, bool) {
	if v.T != "ByteVec" || (v.Tag != "" && v.Tag != "ByteVec") {
		return nil, false
	}
	s := hex.EncodeToString(vh.Expand(v.Seed, v.Len))
	if v.Raw != "" {
		s = v.Raw
	}
	b, err := hex.DecodeString(s)
	if err != nil {
		return nil, false
	}
	if wantLen >= 0 && len(b) != wantLen {
		return nil, false
	}
	return b, true
}

type c11Case struct {
	Fields []valSpec `json:"fields"`
	TsMs   int64     `json:"tsms"`
	TxSeed uint64    `json:"txseed"`
	Prior  int       `json:"prior,omitempty"` // 1: another (well-formed) event of the same transaction is decoded first; 2: one of another transaction
}

var (
	max8  = big.NewInt(255)
	max16 = big.NewInt(65535)
	max64 = new(big.Int).SetUint64(1<<64 - 1)
)

func runC11(c c11Case) (*vh.Violation, vh.Outcome) {
	o := vh.Outcome{}
	var fields []sdk.Val
	for _, f := range c.Fields {
		fields = append(fields, f.val())
	}
	txId := hex.EncodeToString(vh.Expand(c.TxSeed, 32))
	// reference
	fits := len(c.Fields) == 6
	var sender, nonce, payload []byte
	var tc, seq, cl *big.Int
	if fits {
		var ok [6]bool
		sender, ok[0] = refBytes(c.Fields[0], 32)
		tc, ok[1] = refUint(c.Fields[1], max16)
		seq, ok[2] = refUint(c.Fields[2], max64)
		nonce, ok[3] = refBytes(c.Fields[3], 4)
		payload, ok[4] = refBytes(c.Fields[4], -1)
		cl, ok[5] = refUint(c.Fields[5], max8)
		for _, k := range ok {
			fits = fits && k
		}
	}
	// boundary bookkeeping
	for _, f := range c.Fields {
		switch f.Num {
		case "0", "255", "256", "65535", "65536", "18446744073709551615", "18446744073709551616":
			o.NonTrivial = true
			o.Labels = append(o.Labels, "boundary:"+f.Num)
		}
		if len(f.Num) > 70 {
			o.NonTrivial = true
			o.Labels = append(o.Labels, "boundary:2^256-1")
		}
	}
	// A transaction can make the contract publish several messages: the node reports them as consecutive events with
	// the same tx id. What an event decodes to depends on its own fields only.
	if c.Prior != 0 {
		prior := []sdk.Val{valSpec{T: "ByteVec", Seed: 77, Len: 32}.val(), valSpec{T: "U256", Num: "2"}.val(), valSpec{T: "U256", Num: "100"}.val(),
			valSpec{T: "ByteVec", Seed: 78, Len: 4}.val(), valSpec{T: "ByteVec", Seed: 79, Len: 2}.val(), valSpec{T: "U256", Num: "10"}.val()}
		ptx := txId
		if c.Prior == 2 {
			ptx = hex.EncodeToString(vh.Expand(c.TxSeed+1000, 32))
		} else {
			o.Labels = append(o.Labels, "second-event-of-a-transaction")
		}
		if _, err, pan := callToMsg(prior, ptx); err != nil || pan != nil {
			return vh.V("harness/prior-event", "the well-formed prior event was not decoded: %v %v", err, pan), o
		}
	}
	msg, err, pan := callToMsg(fields, txId)
	if pan != nil {
		return vh.V("C11/panic", "ToWormholeMessage panicked: %v", pan), o
	}
	if !fits {
		o.Labels = append(o.Labels, "unfit")
		if err == nil {
			return vh.V("C11/unfit-event-accepted", "an event whose fields do not fit the message format was decoded instead of rejected: fields %s -> %+v", describe(c.Fields), msg), o
		}
		return nil, o
	}
	o.Labels = append(o.Labels, "fit")
	if err != nil {
		return vh.V("C11/fitting-event-rejected", "an event whose fields all fit (target chain %v, sequence %v, consistency level %v, nonce %x, payload %d bytes) was rejected: %v", tc, seq, cl, nonce, len(payload), err), o
	}
	if !bytes.Equal(msg.senderId[:], sender) || uint64(msg.targetChainId) != tc.Uint64() || msg.Sequence != seq.Uint64() ||
		msg.nonce != binary.BigEndian.Uint32(nonce) || !bytes.Equal(msg.payload, payload) || uint64(msg.consistencyLevel) != cl.Uint64() || msg.txId != txId {
		return vh.V("C11/field-mapped-wrongly", "decoded message %+v differs from the event fields (target chain %v, sequence %v, nonce %x, consistency level %v)", msg, tc, seq, nonce, cl), o
	}
	pub := msg.toMessagePublication(&sdk.BlockHeaderEntry{Timestamp: c.TsMs})
	if pub.EmitterChain != vaa.ChainIDAlephium || uint64(pub.TargetChain) != tc.Uint64() || pub.Sequence != seq.Uint64() || pub.Nonce != binary.BigEndian.Uint32(nonce) ||
		uint64(pub.ConsistencyLevel) != cl.Uint64() || !bytes.Equal(pub.Payload, payload) || !bytes.Equal(pub.EmitterAddress[:], sender) {
		return vh.V("C11/publication-mapped-wrongly", "MessagePublication %+v differs from the event", pub), o
	}
	if pub.Timestamp.UnixMilli() != c.TsMs {
		return vh.V("C11/timestamp-mapped-wrongly", "block timestamp %d ms became %d ms", c.TsMs, pub.Timestamp.UnixMilli()), o
	}
	if pub.TxHash != ethCommon.HexToHash(txId) {
		return vh.V("C11/txid-mapped-wrongly", "tx id %s became %s", txId, pub.TxHash.Hex()), o
	}
	return nil, o
}

func describe(fs []valSpec) string {
	s := ""
	for i, f := range fs {
		s += fmt.Sprintf("[%d:%s tag=%q num=%.40q len=%d raw=%.20q] ", i, f.T, f.Tag, f.Num, f.Len, f.Raw)
	}
	return s
}

func callToMsg(fields []sdk.Val, txId string) (m *WormholeMessage, err error, pan any) {
	defer func() {
		if r := recover(); r != nil {
			pan = r
		}
	}()
	m, err = ToWormholeMessage(fields, txId)
	return
}

var numEdges = []string{"0", "1", "254", "255", "256", "257", "65534", "65535", "65536", "4294967295", "4294967296", "18446744073709551614", "18446744073709551615", "18446744073709551616",
	"115792089237316195423570985008687907853269984665640564039457584007913129639935", "-1", "-255", "-65536", "", "abc", "1e3", "0x10", " 5", "5 ", "+5", "12.0"}

func genNum(t *rapid.T, label string, max uint64) string {
	switch rapid.IntRange(0, 3).Draw(t, label+"m") {
	case 0:
		return rapid.SampledFrom(numEdges).Draw(t, label+"e")
	case 1:
		return fmt.Sprint(rapid.Uint64().Draw(t, label+"u"))
	}
	return fmt.Sprint(rapid.Uint64Range(0, max).Draw(t, label+"r"))
}

func genC11(t *rapid.T) c11Case {
	bv := func(label string, n int) valSpec {
		v := valSpec{T: "ByteVec", Len: n, Seed: rapid.Uint64Range(0, 100).Draw(t, label+"seed")}
		switch rapid.IntRange(0, 11).Draw(t, label+"m") {
		case 0:
			v.Len = rapid.SampledFrom([]int{0, 1, 3, 5, 8, 31, 33, 64}).Draw(t, label+"len")
		case 1:
			v.Raw = "zz"
			if n > 0 {
				v.Raw = "zz" + hex.EncodeToString(vh.Expand(v.Seed, n))[2:]
			}
		case 2:
			v.Raw = hex.EncodeToString(vh.Expand(v.Seed, n)) + "a"
		case 3:
			v.Tag = "U256"
		}
		return v
	}
	num := func(label string, max uint64) valSpec {
		v := valSpec{T: "U256", Num: genNum(t, label, max)}
		switch rapid.IntRange(0, 14).Draw(t, label+"k") {
		case 0:
			v.T = "I256"
		case 1:
			v.Tag = "I256"
		case 2:
			v.T = "Bool"
		case 3:
			v.T = "nil"
		case 4:
			v.T = "Address"
		}
		return v
	}
	fs := []valSpec{bv("f0", 32), num("f1", 65535), num("f2", 1<<63), bv("f3", 4), bv("f4", rapid.OneOf(rapid.IntRange(0, 200), rapid.IntRange(0, 1200)).Draw(t, "plen")), num("f5", 255)}
	switch rapid.IntRange(0, 19).Draw(t, "count") {
	case 0:
		fs = fs[:5]
	case 1:
		fs = append(fs, num("f6", 10))
	case 2:
		fs = nil
	case 3: // swap two fields
		fs[1], fs[5] = fs[5], fs[1]
	}
	return c11Case{Fields: fs, TsMs: rapid.OneOf(rapid.Int64Range(0, 4102444800000), rapid.Int64Range(1600000000000, 1800000000999)).Draw(t, "tsms"), TxSeed: rapid.Uint64Range(0, 50).Draw(t, "tx"),
		Prior: rapid.SampledFrom([]int{0, 1, 1, 2}).Draw(t, "prior")}
}

func TestVerif_C11_Fields(t *testing.T) {
	vh.Check(t, vh.Prop[c11Case]{ID: "C11", Gen: genC11, Run: runC11})
}

// ------------------------------------------------------------------ conversions

type convCase struct {
	Seed uint64 `json:"seed"`
	Len  int    `json:"len"`
	Mode int    `json:"mode"`
}

func TestVerif_C11_Conversions(t *testing.T) {
	vh.Check(t, vh.Prop[convCase]{ID: "C11", Gen: func(t *rapid.T) convCase {
		return convCase{Seed: rapid.Uint64().Draw(t, "seed"), Len: rapid.SampledFrom([]int{32, 32, 32, 0, 1, 31, 33, 64}).Draw(t, "len"), Mode: rapid.IntRange(0, 6).Draw(t, "mode")}
	}, Run: func(c convCase) (*vh.Violation, vh.Outcome) {
		o := vh.Outcome{NonTrivial: true}
		raw := vh.Expand(c.Seed, c.Len)
		if c.Mode == 1 && c.Len == 32 {
			for i := 0; i < 8; i++ {
				raw[i] = 0 // leading zero bytes must survive base58
			}
		}
		hx := hex.EncodeToString(raw)
		if c.Mode == 2 {
			hx = upper(hx)
		}
		if c.Mode == 3 && len(hx) > 2 {
			hx = hx[:len(hx)-1] + "g"
		}
		if c.Mode == 4 && len(hx) > 2 {
			// the right number of characters, two of them a prefix: one byte short of an id
			hx = []string{"0x", "0X"}[c.Seed%2] + hx[2:]
		}
		if c.Mode >= 5 && c.Len == 32 {
			// addresses that are not the 33-byte encoding of a contract id: trailing bytes, or another address type
			enc := append([]byte{3}, raw...)
			what := "with trailing bytes"
			if c.Mode == 5 {
				enc = append(enc, vh.Expand(c.Seed+1, 1+int(c.Seed%3))...)
			} else {
				enc[0] = byte(c.Seed % 3) // 0, 1, 2: asset addresses
				what = "of another address type"
			}
			if id, err := ToContractId(base58.Encode(enc)); err == nil && c.Mode == 5 {
				return vh.V("C11/address-roundtrip", "ToContractId accepted an address %s (%d bytes) and returned %x", what, len(enc), id[:4]), o
			}
			return nil, o
		}
		b32, err := HexToByte32(hx)
		wellFormed := c.Len == 32 && c.Mode != 3 && c.Mode != 4
		if wellFormed != (err == nil) {
			return vh.V("C11/hex-conversion-domain", "HexToByte32(%d hex digits, mode %d) err=%v", len(hx), c.Mode, err), o
		}
		if !wellFormed {
			if _, err := ToContractAddress(hx); err == nil {
				return vh.V("C11/hex-conversion-domain", "ToContractAddress accepted a malformed id"), o
			}
			return nil, o
		}
		if !bytes.Equal(b32[:], raw) {
			return vh.V("C11/hex-roundtrip", "HexToByte32 changed the bytes"), o
		}
		if back, err := HexToByte32(b32.ToHex()); err != nil || back != b32 {
			return vh.V("C11/hex-roundtrip", "HexToByte32(x.ToHex()) != x"), o
		}
		addr, err := ToContractAddress(hx)
		if err != nil || addr == nil {
			return vh.V("C11/address-roundtrip", "ToContractAddress failed: %v", err), o
		}
		if want := base58.Encode(append([]byte{3}, raw...)); *addr != want {
			return vh.V("C11/address-roundtrip", "contract address %s, want base58(0x03 || id) = %s", *addr, want), o
		}
		id, err := ToContractId(*addr)
		if err != nil || !bytes.Equal(id[:], raw) {
			return vh.V("C11/address-roundtrip", "ToContractId(ToContractAddress(id)) != id (err %v)", err), o
		}
		addr2, err := ToContractAddress(id.ToHex())
		if err != nil || *addr2 != *addr {
			return vh.V("C11/address-roundtrip", "ToContractAddress(ToContractId(addr)) != addr"), o
		}
		return nil, o
	}})
}

// ------------------------------------------------------------------ through the contracts: attestToken -> publishWormholeMessage -> event -> message

type attestCase struct {
	TokenSeed uint64 `json:"token"`
	Decimals  uint64 `json:"decimals"`
	Symbol    string `json:"symbol"`
	Name      string `json:"name"`
	PadLeft   bool   `json:"padleft"`
	Nonce     uint32 `json:"nonce"`
	CL        uint64 `json:"cl"`
	Seq       uint64 `json:"seq"`
}

func pad32(s string, left bool) []byte {
	b := make([]byte, 32)
	if left {
		copy(b[32-len(s):], s)
	} else {
		copy(b, s)
	}
	return b
}

func TestVerif_C11_Attest(t *testing.T) {
	ct, err := vh.LoadContracts()
	if err != nil {
		t.Fatalf("VERIF-VIOLATION harness/extractor: %v", err)
	}
	gov := ct.File("contracts/governance.ral")
	tb := ct.File("token_bridge/token_bridge.ral")
	if gov == nil || tb == nil || len(gov.Event) != 6 {
		t.Fatalf("VERIF-VIOLATION harness/extractor: contract files / WormholeMessage event not extracted")
	}
	// up to 32 bytes, possibly with NUL bytes in the interior (never at the edges, which are padding)
	str := rapid.Custom(func(t *rapid.T) string {
		s := rapid.StringMatching(`[A-Za-z0-9 ._-]{0,32}`).Draw(t, "s")
		if len(s) >= 3 && rapid.IntRange(0, 3).Draw(t, "nul") == 0 {
			b := []byte(s)
			n := rapid.IntRange(1, 3).Draw(t, "nnul")
			for i := 0; i < n; i++ {
				b[rapid.IntRange(1, len(b)-2).Draw(t, "pos")] = 0
			}
			s = string(b)
		}
		return s
	})
	vh.Check(t, vh.Prop[attestCase]{ID: "C11", Gen: func(t *rapid.T) attestCase {
		return attestCase{TokenSeed: rapid.Uint64Range(1, 1000).Draw(t, "token"), Decimals: rapid.OneOf(rapid.Uint64Range(0, 18), rapid.Uint64Range(0, 255), rapid.Uint64Range(250, 260)).Draw(t, "dec"),
			Symbol: str.Draw(t, "sym"), Name: str.Draw(t, "name"), PadLeft: rapid.Bool().Draw(t, "padleft"), Nonce: vh.U32Edge().Draw(t, "nonce"),
			CL: rapid.OneOf(rapid.Uint64Range(0, 255), rapid.Uint64Range(250, 260)).Draw(t, "cl"), Seq: vh.U64Edge().Draw(t, "seq")}
	}, Run: func(c attestCase) (*vh.Violation, vh.Outcome) {
		o := vh.Outcome{NonTrivial: c.Decimals == 0 || c.Decimals >= 255 || c.CL >= 255 || len(c.Symbol) == 32 || len(c.Name) == 0}
		tokenId := vh.Expand(c.TokenSeed, 32)
		switch c.TokenSeed % 8 { // special ids: the native token (all zero), its neighbours, all ones
		case 0:
			tokenId = make([]byte, 32)
		case 1:
			tokenId = make([]byte, 32)
			tokenId[31] = 1
		case 2:
			tokenId = bytes.Repeat([]byte{0xff}, 32)
		}
		bridgeId := vh.Expand(7777, 32)
		var nonce [4]byte
		binary.BigEndian.PutUint32(nonce[:], c.Nonce)
		// governance.publishWormholeMessage, interpreted, with the token bridge as caller
		var emitted [][]vh.RVal
		govIn := &vh.Interp{C: ct, File: gov, Fields: map[string]vh.RVal{"messageFee": vh.U(0), "ALPH": []byte{}, "callerContractId!": bridgeId}}
		tbIn := &vh.Interp{C: ct, File: tb, Fields: map[string]vh.RVal{"localChainId": vh.U(255), "sendSequence": vh.U(c.Seq), "governance": []byte("gov")}}
		tbIn.Stubs = map[string]func([]vh.RVal) ([]vh.RVal, error){
			"tokenRemaining!":          func([]vh.RVal) ([]vh.RVal, error) { return []vh.RVal{vh.U(1)}, nil },
			"nextSendSequence":         func([]vh.RVal) ([]vh.RVal, error) { return []vh.RVal{vh.U(c.Seq)}, nil },
			"governance.getMessageFee": func([]vh.RVal) ([]vh.RVal, error) { return []vh.RVal{vh.U(0)}, nil },
			"governance.publishWormholeMessage": func(a []vh.RVal) ([]vh.RVal, error) {
				_, err := govIn.Call("publishWormholeMessage", a...)
				emitted = govIn.Emitted
				return nil, err
			},
		}
		_, err := tbIn.Call("attestToken", []byte("payer"), tokenId, vh.U(c.Decimals), pad32(c.Symbol, c.PadLeft), pad32(c.Name, c.PadLeft), nonce[:], vh.U(c.CL))
		if err != nil {
			if vh.IsAbort(err) {
				o.Labels = append(o.Labels, "contract-aborts")
				if c.Decimals <= 255 {
					return vh.V("harness/extractor", "attestToken aborted for in-range arguments: %v", err), o
				}
				return nil, o
			}
			return vh.V("harness/extractor", "%v", err), o
		}
		if len(emitted) != 1 || len(emitted[0]) != 6 {
			return vh.V("harness/extractor", "publishWormholeMessage emitted %d events", len(emitted)), o
		}
		// the node reports event fields in declaration order, typed by their Ralph type
		var fields []sdk.Val
		for _, v := range emitted[0] {
			switch x := v.(type) {
			case *big.Int:
				fields = append(fields, sdk.Val{ValU256: &sdk.ValU256{Value: x.String(), Type: "U256"}})
			case []byte:
				fields = append(fields, sdk.Val{ValByteVec: &sdk.ValByteVec{Value: hex.EncodeToString(x), Type: "ByteVec"}})
			default:
				return vh.V("harness/extractor", "unexpected event field type %T", v), o
			}
		}
		// map by the *declared* field names of the event
		byName := map[string]vh.RVal{}
		for i, n := range gov.Event {
			byName[n] = emitted[0][i]
		}
		msg, err := ToWormholeMessage(fields, hex.EncodeToString(vh.Expand(1, 32)))
		if c.CL > 255 {
			if err == nil {
				return vh.V("C11/unfit-event-accepted", "consistency level %d was accepted as %d", c.CL, msg.consistencyLevel), o
			}
			return nil, o
		}
		if err != nil {
			return vh.V("C11/fitting-event-rejected", "the event emitted by publishWormholeMessage for an attestation (consistency level %d, sequence %d) was rejected: %v", c.CL, c.Seq, err), o
		}
		asInt := func(n string) *big.Int { v, _ := byName[n].(*big.Int); return v }
		asB := func(n string) []byte { v, _ := byName[n].([]byte); return v }
		if asInt("targetChainId") == nil || asInt("sequence") == nil || asInt("consistencyLevel") == nil {
			return vh.V("harness/extractor", "event field names changed: %v", gov.Event), o
		}
		if !bytes.Equal(msg.senderId[:], asB("sender")) || !bytes.Equal(msg.senderId[:], bridgeId) || uint64(msg.targetChainId) != asInt("targetChainId").Uint64() || msg.Sequence != asInt("sequence").Uint64() ||
			msg.Sequence != c.Seq || msg.nonce != c.Nonce || uint64(msg.consistencyLevel) != c.CL || !bytes.Equal(msg.payload, asB("payload")) {
			return vh.V("C11/field-mapped-wrongly", "message %+v does not carry the values the contract emitted (by declared field name: %v)", msg, gov.Event), o
		}
		if !msg.IsAttestTokenVAA() {
			return vh.V("C11/attestation-not-recognised", "payload id %d", msg.payload[0]), o
		}
		info, err := parseAttestToken(msg.payload)
		if err != nil {
			return vh.V("C11/attestation-rejected", "parseAttestToken: %v", err), o
		}
		trim := func(s string) string { return s }
		if !bytes.Equal(info.TokenId[:], tokenId) || uint64(info.Decimals) != c.Decimals || info.Symbol != trim(c.Symbol) || info.Name != trim(c.Name) {
			return vh.V("C11/attestation-decoded-wrongly", "decoded %+v, the contract encoded token %x decimals %d symbol %q name %q", info, tokenId, c.Decimals, c.Symbol, c.Name), o
		}
		return nil, o
	}})
}

func upper(s string) string {
	b := []byte(s)
	for i, c := range b {
		if c >= 'a' && c <= 'f' {
			b[i] = c - 32
		}
	}
	return string(b)
}
