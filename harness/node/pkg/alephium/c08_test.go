//go:build verif

package alephium

import (
	"bytes"
	"context"
	"encoding/hex"
	"fmt"
	"os"
	"sync"
	"testing"
	"time"

	"github.com/alephium/wormhole-fork/node/pkg/common"
	gossipv1 "github.com/alephium/wormhole-fork/node/pkg/proto/gossip/v1"
	"github.com/alephium/wormhole-fork/node/pkg/supervisor"
	"github.com/alephium/wormhole-fork/node/pkg/vaa"
	vh "github.com/alephium/wormhole-fork/node/zzverif"
	"go.uber.org/zap"
	"pgregory.net/rapid"
)

// C08 / C09: the real Watcher.Run against the simulated Alephium node.

type aOp struct {
	K string `json:"k"` // emit | malformed | advance | orphan | reobserve | fault | pagesize | burst
	A int    `json:"a,omitempty"`
	B int    `json:"b,omitempty"`
	C int    `json:"c,omitempty"`
	D int    `json:"d,omitempty"`
}

type aCase struct {
	Mainnet bool  `json:"mainnet"`
	Page    int   `json:"page"`
	Ops     []aOp `json:"ops"`
}

var (
	aGovId    = Byte32{1, 2, 3, 31: 0}
	aBridgeId = Byte32{9, 9, 9, 31: 0}
	aOtherId  = Byte32{7, 7, 7, 31: 0}
)

type aMsg struct {
	truth    *msgTruth
	expect   bool // must eventually be forwarded by the polling path
	hold     bool // must never be forwarded (too recent on the wall clock)
	attestOK bool
	kind     string
	pool     bool // attestation of one of the pool tokens, whose contracts change what they report over time
	tokAddr  string
	meta     tokenBehaviour // what the attestation claims
}

// one stretch of the request log during which a pool token's contract gives the same answers
type tokEpoch struct {
	from int // position in the request log
	b    tokenBehaviour
}

func (b tokenBehaviour) confirms(m tokenBehaviour) bool {
	return b.Mode == "ok" && b.Decimals == m.Decimals && b.Symbol == m.Symbol && b.Name == m.Name
}

var poolTokenVersions = []tokenBehaviour{
	{Mode: "ok", Decimals: 8, Symbol: "SYM", Name: "Token Name"},
	{Mode: "ok", Decimals: 9, Symbol: "SYM", Name: "Token Name"},
	{Mode: "fail-all"}, // not deployed (yet), or its calls fail
	{Mode: "ok", Decimals: 8, Symbol: "SYN", Name: "Token Name"},
}

type aTx struct {
	id        string
	emitPos   int // position in the request log when the transaction appeared
	msgs      []*aMsg
	block     *simBlock
	orphaned  bool
	reincl    *simBlock
	lookAlike bool
}

type aArrival struct {
	m     *common.MessagePublication
	reqAt int
	op    int
}

var aMu sync.Mutex

type aOracles struct {
	liveness bool
	pfx      string
}

const reinclNonceDelta = 7777

func runAlph(c aCase, o aOracles) (*vh.Violation, vh.Outcome) {
	aMu.Lock()
	defer aMu.Unlock()
	out := vh.Outcome{}
	govAddr, _ := ToContractAddress(aGovId.ToHex())
	otherAddr, _ := ToContractAddress(aOtherId.ToHex())
	sim := newAlphSim(*govAddr)
	if c.Page > 0 {
		sim.pageSize = c.Page
	}
	msgC := make(chan *common.MessagePublication, 4096)
	reqC := make(chan *gossipv1.ObservationRequest, 16)
	cfg := &common.ChainConfig{GroupIndex: 0, Contracts: common.Contracts{Governance: aGovId.ToHex(), TokenBridge: aBridgeId.ToHex()}}
	w, err := NewAlephiumWatcher("http://alph.sim", "", cfg, "verifAlphReadiness", msgC, 1, reqC, c.Mainnet)
	if err != nil {
		return vh.V("harness/watcher", "%v", err), out
	}
	w.client = newSimClient(sim)
	ctx, cancel := context.WithCancel(context.Background())
	defer cancel()
	runErr := make(chan error, 16)
	supervisor.New(ctx, zap.NewNop(), func(ctx context.Context) error {
		if err := supervisor.Run(ctx, "alph", func(ctx context.Context) error {
			err := w.Run(ctx)
			if ctx.Err() == nil {
				select {
				case runErr <- err:
				default:
				}
			}
			return err
		}); err != nil {
			return err
		}
		supervisor.Signal(ctx, supervisor.SignalHealthy)
		<-ctx.Done()
		return nil
	})
	waitFor := func(d time.Duration, f func() bool) bool {
		for t0 := time.Now(); time.Since(t0) < d; time.Sleep(200 * time.Microsecond) {
			if f() {
				return true
			}
		}
		return f()
	}
	nKind := func(kind string) int {
		sim.mu.Lock()
		defer sim.mu.Unlock()
		n := 0
		for _, r := range sim.reqs {
			if r.kind == kind {
				n++
			}
		}
		return n
	}
	inconclusive := func(why string) (*vh.Violation, vh.Outcome) {
		out.Inconclusive = true
		out.Labels = append(out.Labels, "inconclusive:"+why)
		return nil, out
	}
	if !waitFor(5*time.Second, func() bool { return nKind("count") >= 2 }) {
		return inconclusive("watcher-did-not-start")
	}
	// Messages are stamped with their position in the request log. Every receive from msgC happens under the
	// simulator's lock - before each request is answered and, in between, from a collector - so a message the
	// watcher handed over before it sent its next request is always stamped before that request (a free-running
	// collector was stamping late under machine load: the answer to a *later* main-chain query then looked like
	// the one the hand-off was based on).
	var arrMu sync.Mutex
	var arrivals []aArrival
	curOp := -1
	drain := func(n int) {
		for {
			select {
			case m := <-msgC:
				arrMu.Lock()
				arrivals = append(arrivals, aArrival{m, n, curOp})
				arrMu.Unlock()
			default:
				return
			}
		}
	}
	sim.mu.Lock()
	sim.drain = drain
	sim.mu.Unlock()
	go func() {
		for {
			select {
			case <-ctx.Done():
				return
			case <-time.After(200 * time.Microsecond):
				sim.mu.Lock()
				drain(len(sim.reqs))
				sim.mu.Unlock()
			}
		}
	}()
	nArrivals := func() int { arrMu.Lock(); defer arrMu.Unlock(); return len(arrivals) }
	setOp := func(i int) { arrMu.Lock(); curOp = i; arrMu.Unlock() }
	collect := func() {}
	exited := ""
	checkExit := func() bool {
		select {
		case e := <-runErr:
			exited = fmt.Sprint(e)
			return true
		default:
			return exited != ""
		}
	}
	// spin detector: many page requests without a count request in between
	spinning := func() (bool, string) {
		sim.mu.Lock()
		defer sim.mu.Unlock()
		run := 0
		last := ""
		for _, r := range sim.reqs {
			if r.kind == "page" {
				run++
				last = r.line
				if run > 200 {
					return true, last
				}
			} else if r.kind == "count" {
				run = 0
			}
		}
		return false, ""
	}
	nonPoll := func() int {
		sim.mu.Lock()
		defer sim.mu.Unlock()
		n := 0
		for _, r := range sim.reqs {
			if r.kind != "count" && r.kind != "chaininfo" && r.kind != "mainchain" { // main-chain checks repeat every round while something is pending
				n++
			}
		}
		return n
	}
	// settle: the watcher has gone through two full poll rounds (count, and height if heights are being polled)
	// during which it sent no other request and forwarded nothing. Heights are handed over synchronously, so a
	// further height answer means the previous one has been processed completely.
	settle := func() bool {
		for attempt := 0; attempt < 200; attempt++ {
			c0, h0, n0, a0 := nKind("count"), nKind("chaininfo"), nonPoll(), nArrivals()
			ok := waitFor(3*time.Second, func() bool {
				if sp, _ := spinning(); sp {
					return true
				}
				if checkExit() {
					return true
				}
				if nKind("count") < c0+2 {
					return false
				}
				if w.blockPollerEnabled.Load() && nKind("chaininfo") < h0+2 {
					return false
				}
				return true
			})
			if !ok {
				return false
			}
			if sp, _ := spinning(); sp || checkExit() {
				return true
			}
			if nonPoll() == n0 && nArrivals() == a0 {
				return true
			}
		}
		return false
	}

	// The pool tokens: attestations (genuine and mismatching) name them again and again, and what their contracts
	// report changes over time ("tokenchange"). An attestation may be forwarded only if the token confirmed its
	// metadata at some moment between the transaction's appearance and the hand-off, and must be forwarded if the
	// token confirmed it all the time since.
	tokHist := map[string][]tokEpoch{}
	poolAddr := func(i int) string {
		id := Byte32{0xab, byte(i % 2), 31: 0}
		a, _ := ToContractAddress(id.ToHex())
		return *a
	}
	sim.mu.Lock()
	for i := 0; i < 2; i++ {
		sim.tokens[poolAddr(i)] = poolTokenVersions[0]
		tokHist[poolAddr(i)] = []tokEpoch{{0, poolTokenVersions[0]}}
	}
	sim.mu.Unlock()
	everConfirmed := func(addr string, meta tokenBehaviour, from, to int) bool {
		h := tokHist[addr]
		for i, e := range h {
			if e.from <= to && (i == len(h)-1 || h[i+1].from >= from) && e.b.confirms(meta) {
				return true
			}
		}
		return false
	}
	alwaysConfirmed := func(addr string, meta tokenBehaviour, from int) bool {
		h := tokHist[addr]
		for i, e := range h {
			if (i == len(h)-1 || h[i+1].from >= from) && !e.b.confirms(meta) {
				return false
			}
		}
		return true
	}
	tokenChanged := false

	nowMs := time.Now().UnixMilli()
	var txs []*aTx
	nBlocks := 0
	newBlock := func(ageMs int64) *simBlock {
		sim.height++
		nBlocks++
		b := &simBlock{Hash: simHash("block", nBlocks), Height: sim.height, TsMs: nowMs - ageMs, Main: true}
		sim.blocks[b.Hash] = b
		return b
	}
	faulty, reobs, hostile, appendedMidFetch := false, false, false, false
	nSeq := 0
	floorOf := func(m *aMsg) int64 {
		f := int64(m.truth.CL)
		if c.Mainnet && m.kind == "transfer" && f < 205 {
			f = 205
		}
		return f
	}
	mkEmit := func(i int, x aOp) {
		sim.aheadHold = false // the events the count was ahead by are (some of) the ones that appear now
		tx := &aTx{id: simHash("tx", len(txs)+1), emitPos: len(sim.reqs)}
		n := 1 + x.D%3 // a transaction can make the governance contract publish several messages
		if x.K == "burst" {
			n = 1
		}
		maxAge, tooRecent := int64(0), false
		for k := 0; k < n; k++ {
			t := &msgTruth{Sender: aBridgeId, TC: uint16((x.D + k) % 5), Seq: uint64(nSeq), Nonce: uint32(x.D + k), CL: uint8([]int{x.B, (x.B*5 + x.D) % 256, x.D % 3}[k]), WellForm: true}
			nSeq++
			m := &aMsg{truth: t, attestOK: true}
			if (x.A+k)%2 == 1 && (k == 0 || x.D%2 == 0) {
				t.Sender = aOtherId // foreign caller
				hostile = true
			}
			tokenId := Byte32{0xaa, byte(len(txs)), byte(k), 31: 0}
			tokenAddr, _ := ToContractAddress(tokenId.ToHex())
			switch (x.C + k*(1+x.D%4)) % 6 {
			case 0:
				t.Payload = append([]byte{TransferTokenPayloadId}, vh.Expand(uint64(x.D+k), 100)...)
				m.kind = "transfer"
			case 1, 2:
				// genuine and mismatching attestations share a small pool of tokens whose contracts never change, so that
				// a correct attestation of a token can be followed by a wrong one of the same token (and vice versa)
				tokenId = Byte32{0xab, byte((x.D + k) % 2), 31: 0}
				tokenAddr, _ = ToContractAddress(tokenId.ToHex())
				m.pool, m.tokAddr = true, *tokenAddr
				m.meta = tokenBehaviour{Decimals: 8, Symbol: "SYM", Name: "Token Name"}
				if (x.C+k*(1+x.D%4))%6 == 2 {
					switch x.D % 3 { // what the token said at first is not what is attested
					case 0:
						m.meta.Decimals = 9
					case 1:
						m.meta.Symbol = "SYN"
					default:
						m.meta.Name = "Token Nam"
					}
				}
				t.Payload = attestPayload(tokenId, m.meta.Decimals, m.meta.Symbol, m.meta.Name)
				m.kind = "attest"
				if !sim.tokens[*tokenAddr].confirms(m.meta) {
					m.attestOK = false
					m.kind = "attest-mismatch"
					hostile = true
				}
			case 3:
				t.Payload = attestPayload(tokenId, 8, "SYM", "Token Name")
				sim.tokens[*tokenAddr] = tokenBehaviour{Mode: []string{"fail-all", "fail-0", "fail-1", "fail-2", "two-results", "no-returns-1", "wrong-type"}[(x.D+k)%7]}
				m.attestOK = false
				m.kind = "attest-broken-token"
				hostile = true
			case 4:
				t.Payload = append([]byte{5}, vh.Expand(uint64(x.D+k), 20)...)
				m.kind = "other"
			case 5:
				t.Payload = []byte{}
				m.kind = "empty"
			}
			if f := floorOf(m) * BlockTimeMs; f > maxAge {
				maxAge = f
			}
			tx.msgs = append(tx.msgs, m)
		}
		// wall-clock age of the block: either old enough for every message of the transaction, or (hold) too recent
		// for those with the highest floor
		age := maxAge + 60000
		if x.A/2%4 == 3 {
			age = maxAge - 60000
			tooRecent = true
		}
		tx.block = newBlock(age)
		for _, m := range tx.msgs {
			if tooRecent && floorOf(m)*BlockTimeMs > age {
				m.hold = true
			}
			if floorOf(m)*BlockTimeMs > age-30000 && floorOf(m)*BlockTimeMs < age+30000 {
				m.hold = true // never within 30 s of a threshold; cannot happen with the 60 s margins, kept as a guard
			}
			ev := &simEvent{Contract: sim.govAddr, BlockHash: tx.block.Hash, TxId: tx.id, EventIndex: 0, Fields: msgFields(m.truth), Truth: m.truth}
			sim.govEvents = append(sim.govEvents, ev)
			sim.txEvents[tx.id] = append(sim.txEvents[tx.id], ev)
			m.expect = m.truth.Sender == aBridgeId && m.attestOK && !m.hold
		}
		sim.txBlock[tx.id] = tx.block.Hash
		if x.A/8%3 == 1 {
			// a look-alike: another contract in the same transaction emits event 0 with the same field shape,
			// claiming the token bridge as sender
			fake := &msgTruth{Sender: aBridgeId, TC: 1, Seq: 900000 + uint64(len(txs)), Nonce: 7, Payload: append([]byte{TransferTokenPayloadId}, 1, 2, 3), CL: 0}
			sim.txEvents[tx.id] = append(sim.txEvents[tx.id], &simEvent{Contract: *otherAddr, BlockHash: tx.block.Hash, TxId: tx.id, EventIndex: 0, Fields: msgFields(fake), Truth: fake})
			tx.lookAlike = true
			hostile = true
		}
		txs = append(txs, tx)
	}
	malformedFields := func(k int) []jval {
		good := msgFields(&msgTruth{Sender: aBridgeId, TC: 1, Seq: 1, Nonce: 1, Payload: []byte{1, 2}, CL: 0})
		switch k % 9 {
		case 0:
			return good[:5]
		case 1:
			good[5] = vU256(256)
		case 2:
			good[1] = vU256(65536)
		case 3:
			good[2] = vU256s("18446744073709551616")
		case 4:
			good[3] = vBytes([]byte{1, 2, 3})
		case 5:
			good[4] = vBytesRaw("zz")
		case 6:
			good[0] = vBytes([]byte{1, 2, 3})
		case 7:
			good[1] = vBool(true)
		case 8:
			return append(good, vU256(1))
		}
		return good
	}

	for i, x := range c.Ops {
		setOp(i)
		sim.mu.Lock()
		switch x.K {
		case "emit":
			mkEmit(i, x)
		case "burst": // several events at once, and more of them right after the next count request was answered
			n := 1 + x.A%4
			for k := 0; k < n; k++ {
				mkEmit(i, aOp{K: "emit", A: 0, B: x.B % 3, C: 0, D: x.D + k})
			}
			late := 1 + x.C%3
			at := sim.nCount + 1
			xx := x
			sim.onCount[at] = func() {
				for k := 0; k < late; k++ {
					mkEmit(i, aOp{K: "emit", A: 0, B: xx.B % 3, C: 0, D: xx.D + 10 + k})
				}
			}
			appendedMidFetch = true
		case "malformed":
			hostile = true
			b := newBlock(60000)
			idx := int32(0)
			if x.A%10 == 9 {
				idx = 1 // an event with another index on the governance stream
			}
			id := simHash("badtx", len(sim.govEvents)+1)
			fields := malformedFields(x.A)
			if x.A >= 10 {
				// an event of another kind (index 1, 2) whose fields happen to look exactly like a message's
				idx = int32(x.A - 9)
				snd := aBridgeId
				if x.A%2 == 1 {
					snd = aOtherId
				}
				fields = msgFields(&msgTruth{Sender: snd, TC: 1, Seq: 800000 + uint64(len(sim.govEvents)), Nonce: 3, Payload: []byte{9, 9}, CL: uint8(x.A % 3)})
			}
			ev := &simEvent{Contract: sim.govAddr, BlockHash: b.Hash, TxId: id, EventIndex: idx, Fields: fields}
			sim.govEvents = append(sim.govEvents, ev)
			sim.txEvents[id] = []*simEvent{ev}
			sim.txBlock[id] = b.Hash
		case "advance":
			sim.height += int32(1 + x.A)
		case "orphan":
			if len(txs) > 0 {
				t := txs[x.A%len(txs)]
				if !t.orphaned {
					t.block.Main = false
					t.orphaned = true
					for _, m := range t.msgs {
						m.expect = false
					}
					if x.B%2 == 1 {
						// the transaction is included again in a block of the new main chain, old enough for all its messages
						maxAge := int64(0)
						for _, m := range t.msgs {
							if f := floorOf(m) * BlockTimeMs; f > maxAge {
								maxAge = f
							}
						}
						nb := newBlock(maxAge + 61000 + int64(len(sim.blocks))) // a timestamp of its own: tells the two inclusions apart
						t.reincl = nb
						for _, m := range t.msgs {
							// the copy in the new block is told apart from the orphaned copy by its nonce
							tr := *m.truth
							tr.Nonce += reinclNonceDelta
							ev := &simEvent{Contract: sim.govAddr, BlockHash: nb.Hash, TxId: t.id, EventIndex: 0, Fields: msgFields(&tr), Truth: m.truth}
							sim.govEvents = append(sim.govEvents, ev)
							sim.txEvents[t.id] = append(sim.txEvents[t.id], ev)
							m.hold = false
							m.expect = m.truth.Sender == aBridgeId && m.attestOK
						}
						sim.txBlock[t.id] = nb.Hash
					}
				}
			}
		case "fault":
			faulty = true
			sim.faults[[]string{"count", "page", "chaininfo", "header", "mainchain", "txstatus", "txid"}[x.A%7]] = 1 + x.B%2
		case "tokenchange":
			addr := poolAddr(x.D)
			nb := poolTokenVersions[x.A%len(poolTokenVersions)]
			if sim.tokens[addr] != nb {
				sim.tokens[addr] = nb
				tokHist[addr] = append(tokHist[addr], tokEpoch{len(sim.reqs), nb})
				tokenChanged = true
			}
		case "pagesize":
			sim.pageSize = 1 + x.A%5
		case "countahead":
			if x.A >= 2 {
				sim.aheadHold = true // until the next emit
			} else {
				sim.countAhead = 1 + x.A%2
			}
			hostile = true
		}
		sim.mu.Unlock()
		if x.K == "reobserve" && len(txs) > 0 {
			reobs = true
			t := txs[len(txs)-1] // A < 0: the most recent transaction
			if x.A >= 0 {
				t = txs[x.A%len(txs)]
			}
			raw, _ := hex.DecodeString(t.id)
			reqC <- &gossipv1.ObservationRequest{ChainId: uint32(vaa.ChainIDAlephium), TxHash: raw}
			// requests are handled one after the other: once a later request for an unknown transaction has reached its
			// status lookup, the request above has been handled completely
			bar := vh.Expand(uint64(900000+i), 32)
			barHex := hex.EncodeToString(bar)
			done := false
			for b := 0; b < 4 && !done; b++ {
				reqC <- &gossipv1.ObservationRequest{ChainId: uint32(vaa.ChainIDAlephium), TxHash: bar}
				done = waitFor(3*time.Second, func() bool {
					sim.mu.Lock()
					defer sim.mu.Unlock()
					for k := len(sim.reqs) - 1; k >= 0 && k > len(sim.reqs)-600; k-- {
						if sim.reqs[k].kind == "txstatus" && sim.reqs[k].arg == barHex && sim.reqs[k].status == 200 {
							return true
						}
					}
					return false
				}) || checkExit()
			}
			if !done {
				return inconclusive("reobserve-not-handled")
			}
		}
		if x.K == "countahead" && x.A >= 2 {
			// while the count is held ahead every round asks for a page (and gets nothing): there is no quiet state to wait
			// for, two rounds are enough for the watcher to have seen the count
			c0 := nKind("count")
			waitFor(3*time.Second, func() bool { return nKind("count") >= c0+2 })
			continue
		}
		if !settle() {
			return inconclusive("step-did-not-settle")
		}
		collect()
		if sp, line := spinning(); sp {
			return vh.V("C09/spins-on-node-api", "op %d: the watcher sent more than 200 page requests without polling the count again (last: %s); events were appended between the count and the page request: %v", i, line, appendedMidFetch), out
		}
		if checkExit() {
			break
		}
	}
	// closing stretch: enough height for every consistency level, then a few more polls
	if exited == "" {
		setOp(len(c.Ops))
		sim.mu.Lock()
		sim.height += 260
		sim.aheadHold = false
		sim.mu.Unlock()
		for k := 0; k < 3; k++ {
			if !settle() {
				return inconclusive("final-step-did-not-settle")
			}
			collect()
		}
		if sp, line := spinning(); sp {
			return vh.V("C09/spins-on-node-api", "the watcher sent more than 200 page requests without polling the count again (last: %s)", line), out
		}
		checkExit()
	}
	if exited != "" && !faulty {
		return vh.V("C09/watcher-exited-on-event-content", "the watcher's Run returned (%s) although the node never failed a request; pending and not yet fetched messages are lost when it restarts", exited), out
	}

	// ---------------------------------------------------------------- safety
	cancel()
	time.Sleep(time.Millisecond)
	arrMu.Lock()
	defer arrMu.Unlock()
	sim.mu.Lock()
	reqs := append([]simReq{}, sim.reqs...)
	sim.mu.Unlock()
	byTx := map[string]*aTx{}
	for _, t := range txs {
		byTx[t.id] = t
	}
	forwarded := map[string]int{}
	nForwarded := 0
	if os.Getenv("VERIF_DEBUG") != "" {
		for _, a := range arrivals {
			fmt.Printf("DEBUG arrival op=%d reqAt=%d seq=%d tx=%x\n", a.op, a.reqAt, a.m.Sequence, a.m.TxHash[:6])
		}
		for _, r := range reqs {
			fmt.Printf("DEBUG req %d %s -> %d %s\n", r.seq, r.line, r.status, r.resp)
		}
	}
	for _, a := range arrivals {
		m := a.m
		txid := hex.EncodeToString(m.TxHash[:])
		t := byTx[txid]
		isReobs := a.op >= 0 && a.op < len(c.Ops) && c.Ops[a.op].K == "reobserve"
		path := "polling"
		if isReobs {
			path = "re-observation"
		}
		if t == nil {
			return vh.V("C08/unknown-event-forwarded", "%s path forwarded a message for tx %s that carries no token-bridge message", path, txid[:12]), out
		}
		var am *aMsg
		for _, x := range t.msgs {
			if x.truth.Seq == m.Sequence && bytes.Equal(m.Payload, x.truth.Payload) {
				am = x
			}
		}
		if am == nil {
			if t.lookAlike && m.Sequence >= 900000 {
				return vh.V("C08/look-alike-event-forwarded", "op %d (%s path): an event emitted by another contract in tx %s (event index 0, sender field forged to the token bridge) was forwarded as a message", a.op, path, txid[:12]), out
			}
			return vh.V("C08/unknown-event-forwarded", "op %d (%s path): forwarded message (sequence %d) is not a governance event of tx %s", a.op, path, m.Sequence, txid[:12]), out
		}
		nForwarded++
		if am.truth.Sender != aBridgeId {
			return vh.V("C08/foreign-caller-forwarded", "op %d (%s path): a message published by a contract other than the token bridge was forwarded", a.op, path), out
		}
		if am.pool {
			if !everConfirmed(am.tokAddr, am.meta, t.emitPos, a.reqAt) {
				return vh.V("C08/unverified-attestation-forwarded", "op %d (%s path): an attestation (decimals %d, symbol %q, name %q) was forwarded although the token contract reported something else (or failed) at every moment between the transaction's appearance (request %d) and the hand-off (request %d); what the token reported, by request position: %+v",
					a.op, path, am.meta.Decimals, am.meta.Symbol, am.meta.Name, t.emitPos, a.reqAt, tokHist[am.tokAddr]), out
			}
		} else if !am.attestOK {
			return vh.V("C08/unverified-attestation-forwarded", "op %d (%s path): an attestation (%s) whose metadata the token contract does not confirm was forwarded", a.op, path, am.kind), out
		}
		// which block? the one whose timestamp the message carries
		blk := t.block
		if t.reincl != nil && m.Timestamp.UnixMilli() == t.reincl.TsMs {
			blk = t.reincl
		}
		// ... and the event must be that block's own copy
		if t.reincl != nil {
			fromNew := m.Nonce == am.truth.Nonce+reinclNonceDelta
			if (blk == t.reincl) != fromNew {
				return vh.V("C08/orphaned-block-event-forwarded", "op %d (%s path): tx %s was orphaned and included again; the forwarded message carries the timestamp of block %s but is the event of the other inclusion (nonce %d)", a.op, path, txid[:12], blk.Hash[:10], m.Nonce), out
			}
		}
		// last answers before the message arrived
		lastMain, haveMain := false, false
		var lastHeight int32 = -1
		lastMainAt := -1
		var newHeightAt []int // positions of the height answers that reported a new height (only those are handed to the event loop)
		var topHeight int32 = -1
		for k := 0; k < a.reqAt && k < len(reqs); k++ {
			r := reqs[k]
			if r.kind == "mainchain" && r.arg == blk.Hash && r.status == 200 {
				lastMain, haveMain = r.resp == "true", true
				lastMainAt = k
			}
			if r.kind == "chaininfo" && r.status == 200 {
				var h int32
				fmt.Sscanf(r.resp, `{"currentHeight":%d}`, &h)
				lastHeight = h
				if h > topHeight {
					topHeight = h
					newHeightAt = append(newHeightAt, k)
				}
			}
		}
		// "at that moment": on the polling path a message is handed over while a new height is being processed, and the
		// block is asked about during that round. The round in progress is that of the last new height or - when the
		// next one has already been fetched and is waiting - the one before it. An answer older than that is a memory.
		if !isReobs && haveMain && lastMain && len(newHeightAt) >= 2 && lastMainAt < newHeightAt[len(newHeightAt)-2] {
			return vh.V("C08/forwarded-on-stale-main-chain-answer", "op %d (polling path): message of tx %s forwarded from block %s; the node was last asked whether that block is on the main chain at request #%d, two new heights (requests #%d, #%d) before the hand-off", a.op, txid[:12], blk.Hash[:10], lastMainAt, newHeightAt[len(newHeightAt)-2], newHeightAt[len(newHeightAt)-1]), out
		}
		if !haveMain || !lastMain {
			return vh.V("C08/orphaned-block-event-forwarded", "op %d (%s path): message of tx %s forwarded from block %s although the node's last main-chain answer for that block before the hand-off was %v (asked: %v)", a.op, path, txid[:12], blk.Hash[:10], lastMain, haveMain), out
		}
		if blk.Height+int32(am.truth.CL) > lastHeight {
			return vh.V("C08/forwarded-too-shallow", "op %d (%s path): message of tx %s (block height %d, consistency level %d) forwarded when the last height answer was %d", a.op, path, txid[:12], blk.Height, am.truth.CL, lastHeight), out
		}
		if c.Mainnet && am.kind == "transfer" {
			floor := int64(am.truth.CL)
			if floor < 205 {
				floor = 205
			}
			if blk.TsMs+floor*BlockTimeMs > time.Now().UnixMilli() {
				fp := "C08/transfer-before-time-floor"
				if isReobs {
					fp = "C08/reobserve-no-time-floor"
				}
				return vh.V(fp, "op %d (%s path): mainnet transfer of tx %s forwarded %d s after its block's timestamp; the floor is max(consistency level, 205) x 16 s = %d s", a.op, path, txid[:12],
					(time.Now().UnixMilli()-blk.TsMs)/1000, floor*16), out
			}
		}
		if !isReobs {
			key := fmt.Sprintf("%s/%s/%d", txid, blk.Hash, m.Sequence)
			forwarded[key]++
			if forwarded[key] > 1 {
				return vh.V(o.pfx+"/forwarded-twice", "the polling path forwarded message %d of tx %s in block %s twice", m.Sequence, txid[:12], blk.Hash[:10]), out
			}
		}
	}
	// ---------------------------------------------------------------- bounded liveness (C09)
	if o.liveness && !faulty && !reobs && exited == "" {
		for _, t := range txs {
			blk := t.block
			if t.reincl != nil {
				blk = t.reincl
			}
			for _, m := range t.msgs {
				if !m.expect {
					continue
				}
				if m.pool && !alwaysConfirmed(m.tokAddr, m.meta, t.emitPos) {
					continue // the token said otherwise at some point: the watcher may have asked just then
				}
				if forwarded[fmt.Sprintf("%s/%s/%d", t.id, blk.Hash, m.truth.Seq)] != 1 {
					return vh.V("C09/message-never-observed", "the %s message (sequence %d, one of %d messages) of tx %s (token bridge caller, block %s on the main chain at height %d, consistency level %d, chain height now %d, old enough) was never handed to the signing pipeline", m.kind, m.truth.Seq, len(t.msgs), t.id[:12], blk.Hash[:10], blk.Height, m.truth.CL, sim.height), out
				}
			}
		}
	}
	out.NonTrivial = (hostile || appendedMidFetch) && nForwarded > 0
	for _, t := range txs {
		if t.orphaned || t.lookAlike {
			if nForwarded > 0 {
				out.NonTrivial = true
			}
		}
	}
	if appendedMidFetch {
		out.Labels = append(out.Labels, "append-between-count-and-page")
	}
	if hostile {
		out.Labels = append(out.Labels, "hostile-events")
	}
	if tokenChanged {
		out.Labels = append(out.Labels, "token-metadata-changed")
	}
	return nil, out
}

func genAlph(t *rapid.T, liveness bool) aCase {
	c := aCase{Mainnet: rapid.Bool().Draw(t, "mainnet"), Page: rapid.SampledFrom([]int{1, 2, 3, 100}).Draw(t, "page")}
	kinds := []string{"emit", "emit", "emit", "emit", "advance", "advance", "orphan", "malformed", "burst", "pagesize", "countahead"}
	if !liveness {
		kinds = append(kinds, "reobserve", "reobserve", "fault")
	}
	if !liveness {
		kinds = append(kinds, "emit+reobserve", "emit+reobserve")
	}
	kinds = append(kinds, "countahead+emit", "tokenchange", "attest+change+attest")
	op := rapid.Custom(func(t *rapid.T) []aOp {
		k := rapid.SampledFrom(kinds).Draw(t, "k")
		one := func(o aOp) []aOp { return []aOp{o} }
		switch k {
		case "tokenchange":
			return one(aOp{K: k, A: rapid.IntRange(0, 3).Draw(t, "version"), D: rapid.IntRange(0, 1).Draw(t, "token")})
		case "attest+change+attest":
			// a token is attested (rightly or wrongly, or while its contract does not answer), its contract then reports
			// something else, and the token is attested again: the second answer has to come from the contract as it is now
			d1 := rapid.IntRange(0, 100).Draw(t, "d1")
			d2 := d1 + 2*rapid.IntRange(-3, 3).Draw(t, "d2")
			if d2 < 0 {
				d2 = d1
			}
			return []aOp{{K: "tokenchange", A: rapid.IntRange(0, 3).Draw(t, "v1"), D: d1 % 2},
				{K: "emit", A: 0, B: rapid.IntRange(0, 2).Draw(t, "cl1"), C: rapid.IntRange(1, 2).Draw(t, "c1"), D: d1},
				{K: "advance", A: rapid.IntRange(0, 4).Draw(t, "n")},
				{K: "tokenchange", A: rapid.IntRange(0, 3).Draw(t, "v2"), D: d1 % 2},
				{K: "emit", A: 0, B: rapid.IntRange(0, 2).Draw(t, "cl2"), C: rapid.IntRange(1, 2).Draw(t, "c2"), D: d2},
				{K: "advance", A: 3}}
		case "countahead+emit":
			// the count runs two events ahead of what can be paged out; then exactly two events do appear, so that the count
			// the node reports does not move although the cursor is still behind it
			return []aOp{{K: "countahead", A: 2}, {K: "emit", A: 0, B: rapid.IntRange(0, 2).Draw(t, "cl"), C: 0, D: rapid.SampledFrom([]int{1, 4, 7, 10}).Draw(t, "d")}, {K: "advance", A: 3}}
		case "emit+reobserve":
			// a transaction with several events (messages of different levels, optionally a look-alike of another contract
			// as its last event), some blocks, then a re-observation request for exactly that transaction
			return []aOp{{K: "emit", A: rapid.SampledFrom([]int{0, 8, 8, 10, 40, 42}).Draw(t, "a"), B: rapid.SampledFrom([]int{0, 0, 1, 2, 200}).Draw(t, "cl"), C: rapid.IntRange(0, 5).Draw(t, "payload"), D: rapid.IntRange(0, 100).Draw(t, "d")},
				{K: "advance", A: rapid.IntRange(0, 4).Draw(t, "n")}, {K: "reobserve", A: -1}}
		}
		return one(func() aOp {
			switch k {
			case "emit":
				return aOp{K: k, A: rapid.IntRange(0, 63).Draw(t, "a"), B: rapid.OneOf(rapid.IntRange(0, 3), rapid.IntRange(0, 255)).Draw(t, "cl"), C: rapid.IntRange(0, 5).Draw(t, "payload"), D: rapid.IntRange(0, 100).Draw(t, "d")}
			case "advance":
				return aOp{K: k, A: rapid.OneOf(rapid.IntRange(0, 3), rapid.IntRange(0, 300)).Draw(t, "n")}
			case "orphan":
				return aOp{K: k, A: rapid.IntRange(0, 9).Draw(t, "tx"), B: rapid.IntRange(0, 1).Draw(t, "reinclude")}
			case "burst":
				return aOp{K: k, A: rapid.IntRange(0, 3).Draw(t, "n"), B: rapid.IntRange(0, 2).Draw(t, "cl"), C: rapid.IntRange(0, 2).Draw(t, "late"), D: rapid.IntRange(0, 50).Draw(t, "d")}
			case "malformed":
				return aOp{K: k, A: rapid.IntRange(0, 11).Draw(t, "kind")}
			case "fault":
				return aOp{K: k, A: rapid.IntRange(0, 6).Draw(t, "what"), B: rapid.IntRange(0, 1).Draw(t, "n")}
			case "pagesize":
				return aOp{K: k, A: rapid.IntRange(0, 4).Draw(t, "size")}
			case "countahead":
				return aOp{K: k, A: rapid.IntRange(0, 1).Draw(t, "n")}
			}
			return aOp{K: "reobserve", A: rapid.IntRange(-1, 9).Draw(t, "tx")}
		}())
	})
	for _, g := range rapid.SliceOfN(op, 1, 20).Draw(t, "ops") {
		c.Ops = append(c.Ops, g...)
	}
	return c
}

func TestVerif_C08_Watcher(t *testing.T) {
	vh.Check(t, vh.Prop[aCase]{ID: "C08", Gen: func(t *rapid.T) aCase { return genAlph(t, false) }, Run: func(c aCase) (*vh.Violation, vh.Outcome) {
		v, o := runAlph(c, aOracles{pfx: "C08"})
		if v != nil && len(v.Fingerprint) > 4 && v.Fingerprint[:4] == "C09/" {
			return nil, o // liveness / robustness findings are C09's
		}
		return v, o
	}})
}

func TestVerif_C09_Watcher(t *testing.T) {
	vh.Check(t, vh.Prop[aCase]{ID: "C09", Gen: func(t *rapid.T) aCase { return genAlph(t, true) }, Run: func(c aCase) (*vh.Violation, vh.Outcome) {
		v, o := runAlph(c, aOracles{liveness: true, pfx: "C09"})
		if v != nil && len(v.Fingerprint) > 4 && v.Fingerprint[:4] == "C08/" {
			return nil, o
		}
		return v, o
	}})
}
