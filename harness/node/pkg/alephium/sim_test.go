//go:build verif

package alephium

import (
	"bytes"
	"encoding/binary"
	"encoding/hex"
	"encoding/json"
	"fmt"
	"io"
	"net/http"
	"strconv"
	"strings"
	"sync"

	sdk "github.com/alephium/go-sdk"
	vh "github.com/alephium/wormhole-fork/node/zzverif"
)

// A simulated Alephium full node behind an http.RoundTripper (no sockets). It owns the
// ground-truth chain and event log and records every request with a global sequence number.

type jval = map[string]any

type simEvent struct {
	Contract   string // address of the emitting contract
	BlockHash  string
	TxId       string
	EventIndex int32
	Fields     []jval
	// ground truth about the message (nil for malformed events)
	Truth *msgTruth
}

type msgTruth struct {
	Sender   Byte32
	TC       uint16
	Seq      uint64
	Nonce    uint32
	Payload  []byte
	CL       uint8
	WellForm bool
}

type simBlock struct {
	Hash   string
	Height int32
	TsMs   int64
	Main   bool
}

type tokenBehaviour struct {
	Mode     string // ok | fail-all | fail-0 | fail-1 | fail-2 | two-results | no-returns-1 | wrong-type | http-500
	Decimals uint8
	Symbol   string
	Name     string
}

type simReq struct {
	seq    int
	line   string // method + path + query
	kind   string // count | page | txid | chaininfo | header | mainchain | txstatus | multicall | version | clique
	arg    string
	resp   string // short description of the answer
	status int
}

type alphSim struct {
	mu         sync.Mutex
	govAddr    string
	blocks     map[string]*simBlock
	height     int32
	govEvents  []*simEvent
	txEvents   map[string][]*simEvent
	txBlock    map[string]string // tx id -> block hash reported by /transactions/status ("" = not found)
	tokens     map[string]tokenBehaviour
	pageSize   int
	reqs       []simReq
	nCount     int
	onCount    map[int]func() // run (under the lock) right after the k-th current-count request was answered
	faults     map[string]int
	aheadHold  bool        // the count stays two events ahead of the pages until the next transaction is emitted
	countAhead int         // this many of the next current-count answers report two events more than the node can page out (their block was replaced in between)
	drain      func(n int) // called under the lock before every request is answered: n = requests answered so far
}

func newAlphSim(govAddr string) *alphSim {
	return &alphSim{govAddr: govAddr, blocks: map[string]*simBlock{}, height: 1000, txEvents: map[string][]*simEvent{}, txBlock: map[string]string{}, tokens: map[string]tokenBehaviour{},
		pageSize: 100, onCount: map[int]func(){}, faults: map[string]int{}}
}

func vU256(n uint64) jval     { return jval{"type": "U256", "value": strconv.FormatUint(n, 10)} }
func vU256s(s string) jval    { return jval{"type": "U256", "value": s} }
func vBytes(b []byte) jval    { return jval{"type": "ByteVec", "value": hex.EncodeToString(b)} }
func vBytesRaw(s string) jval { return jval{"type": "ByteVec", "value": s} }
func vBool(b bool) jval       { return jval{"type": "Bool", "value": b} }

func msgFields(t *msgTruth) []jval {
	var n [4]byte
	binary.BigEndian.PutUint32(n[:], t.Nonce)
	return []jval{vBytes(t.Sender[:]), vU256(uint64(t.TC)), vU256(t.Seq), vBytes(n[:]), vBytes(t.Payload), vU256(uint64(t.CL))}
}

func attestPayload(tokenId Byte32, decimals uint8, symbol, name string) []byte {
	p := []byte{AttestTokenPayloadId}
	p = append(p, tokenId[:]...)
	p = append(p, 0, 255)
	p = append(p, decimals)
	s := make([]byte, 32)
	copy(s, symbol)
	n := make([]byte, 32)
	copy(n, name)
	p = append(p, s...)
	return append(p, n...)
}

func (s *alphSim) answer(kind, arg string, status int, body any, line string) *http.Response {
	var b []byte
	switch x := body.(type) {
	case []byte:
		b = x
	case string:
		b = []byte(x)
	default:
		b, _ = json.Marshal(body)
	}
	desc := string(b)
	if len(desc) > 120 {
		desc = desc[:120]
	}
	s.reqs = append(s.reqs, simReq{seq: len(s.reqs), line: line, kind: kind, arg: arg, resp: desc, status: status})
	return &http.Response{StatusCode: status, Status: fmt.Sprintf("%d", status), Header: http.Header{"Content-Type": []string{"application/json"}}, Body: io.NopCloser(bytes.NewReader(b)), ContentLength: int64(len(b))}
}

func (s *alphSim) RoundTrip(r *http.Request) (*http.Response, error) {
	var reqBody []byte
	if r.Body != nil {
		reqBody, _ = io.ReadAll(r.Body)
		r.Body.Close()
	}
	s.mu.Lock()
	defer s.mu.Unlock()
	if s.drain != nil {
		s.drain(len(s.reqs))
	}
	p := r.URL.Path
	q := r.URL.Query()
	line := r.Method + " " + p + "?" + r.URL.RawQuery
	fail := func(kind string) bool {
		if s.faults[kind] > 0 {
			s.faults[kind]--
			return true
		}
		return false
	}
	err500 := func(kind, arg string) (*http.Response, error) {
		return s.answer(kind, arg, 500, jval{"detail": "internal error"}, line), nil
	}
	switch {
	case p == "/infos/version":
		return s.answer("version", "", 200, jval{"version": "v2.5.6"}, line), nil
	case p == "/infos/self-clique":
		return s.answer("clique", "", 200, jval{"cliqueId": "00", "nodes": []any{}, "selfReady": true, "synced": true}, line), nil
	case strings.HasPrefix(p, "/events/contract/") && strings.HasSuffix(p, "/current-count"):
		addr := strings.TrimSuffix(strings.TrimPrefix(p, "/events/contract/"), "/current-count")
		if fail("count") {
			return err500("count", addr)
		}
		n := 0
		if addr == s.govAddr {
			n = len(s.govEvents)
			if s.countAhead > 0 {
				s.countAhead--
				n += 2
			} else if s.aheadHold {
				n += 2
			}
		}
		resp := s.answer("count", addr, 200, n, line)
		s.nCount++
		if f := s.onCount[s.nCount]; f != nil {
			f()
		}
		return resp, nil
	case strings.HasPrefix(p, "/events/contract/"):
		addr := strings.TrimPrefix(p, "/events/contract/")
		if fail("page") {
			return err500("page", addr)
		}
		start, _ := strconv.Atoi(q.Get("start"))
		var evs []any
		next := start
		if addr == s.govAddr {
			for i := start; i < len(s.govEvents) && i < start+s.pageSize; i++ {
				e := s.govEvents[i]
				evs = append(evs, jval{"blockHash": e.BlockHash, "txId": e.TxId, "eventIndex": e.EventIndex, "fields": e.Fields})
				next = i + 1
			}
		}
		if evs == nil {
			evs = []any{}
		}
		return s.answer("page", fmt.Sprintf("%d", start), 200, jval{"events": evs, "nextStart": next}, line), nil
	case strings.HasPrefix(p, "/events/tx-id/"):
		tx := strings.TrimPrefix(p, "/events/tx-id/")
		if fail("txid") {
			return err500("txid", tx)
		}
		var evs []any
		for _, e := range s.txEvents[tx] {
			evs = append(evs, jval{"blockHash": e.BlockHash, "contractAddress": e.Contract, "eventIndex": e.EventIndex, "fields": e.Fields})
		}
		if evs == nil {
			evs = []any{}
		}
		return s.answer("txid", tx, 200, jval{"events": evs}, line), nil
	case p == "/blockflow/chain-info":
		if fail("chaininfo") {
			return err500("chaininfo", "")
		}
		return s.answer("chaininfo", "", 200, jval{"currentHeight": s.height}, line), nil
	case strings.HasPrefix(p, "/blockflow/headers/"):
		h := strings.TrimPrefix(p, "/blockflow/headers/")
		if fail("header") {
			return err500("header", h)
		}
		b := s.blocks[h]
		if b == nil {
			return s.answer("header", h, 404, jval{"resource": "block", "detail": "not found"}, line), nil
		}
		return s.answer("header", h, 200, jval{"hash": b.Hash, "timestamp": b.TsMs, "chainFrom": 0, "chainTo": 0, "height": b.Height, "deps": []string{}}, line), nil
	case p == "/blockflow/is-block-in-main-chain":
		h := q.Get("blockHash")
		if fail("mainchain") {
			return err500("mainchain", h)
		}
		b := s.blocks[h]
		return s.answer("mainchain", h, 200, b != nil && b.Main, line), nil
	case p == "/transactions/status":
		tx := q.Get("txId")
		if fail("txstatus") {
			return err500("txstatus", tx)
		}
		bh := s.txBlock[tx]
		if bh == "" {
			return s.answer("txstatus", tx, 200, jval{"type": "TxNotFound"}, line), nil
		}
		return s.answer("txstatus", tx, 200, jval{"type": "Confirmed", "blockHash": bh, "txIndex": 0, "chainConfirmations": 1, "fromGroupConfirmations": 1, "toGroupConfirmations": 1}, line), nil
	case p == "/contracts/multicall-contract":
		var mc sdk.MultipleCallContract
		_ = json.Unmarshal(reqBody, &mc)
		addr := ""
		if len(mc.Calls) > 0 {
			addr = mc.Calls[0].Address
		}
		tb, ok := s.tokens[addr]
		if !ok {
			tb = tokenBehaviour{Mode: "fail-all"}
		}
		if tb.Mode == "http-500" {
			return err500("multicall", addr)
		}
		okRes := func(v jval) jval {
			return jval{"type": "CallContractSucceeded", "returns": []jval{v}, "gasUsed": 1, "contracts": []any{}, "txInputs": []any{}, "txOutputs": []any{}, "events": []any{}}
		}
		failRes := jval{"type": "CallContractFailed", "error": "VM execution error"}
		sym := make([]byte, 32)
		copy(sym, tb.Symbol)
		nm := make([]byte, 32)
		copy(nm, tb.Name)
		res := []jval{okRes(vBytes(sym)), okRes(vBytes(nm)), okRes(vU256(uint64(tb.Decimals)))}
		switch tb.Mode {
		case "fail-all":
			res = []jval{failRes, failRes, failRes}
		case "fail-0":
			res[0] = failRes
		case "fail-1":
			res[1] = failRes
		case "fail-2":
			res[2] = failRes
		case "two-results":
			res = res[:2]
		case "no-returns-1":
			r1 := okRes(vU256(0))
			r1["returns"] = []jval{}
			res[1] = r1
		case "wrong-type":
			res[2] = okRes(vBool(true))
			res[0] = okRes(vU256(5))
		}
		return s.answer("multicall", addr, 200, jval{"results": res}, line), nil
	}
	return s.answer("unknown", p, 404, jval{"detail": "not found"}, line), nil
}

func simHash(kind string, n int) string {
	return hex.EncodeToString(vh.Expand(uint64(n)*31+uint64(len(kind))*7+uint64(kind[0]), 32))
}

// newSimClient builds the watcher's Client around the simulator's transport.
func newSimClient(s *alphSim) *Client {
	cfg := sdk.NewConfiguration()
	cfg.Host = "alph.sim"
	cfg.Scheme = "http"
	cfg.HTTPClient = &http.Client{Transport: s}
	return &Client{timeout: 10e9, impl: sdk.NewAPIClient(cfg)}
}
