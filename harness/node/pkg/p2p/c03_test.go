//go:build verif

package p2p

import (
	"fmt"
	"reflect"
	"testing"

	node_common "github.com/alephium/wormhole-fork/node/pkg/common"
	gossipv1 "github.com/alephium/wormhole-fork/node/pkg/proto/gossip/v1"
	vh "github.com/alephium/wormhole-fork/node/zzverif"
	"github.com/ethereum/go-ethereum/common"
	ethcrypto "github.com/ethereum/go-ethereum/crypto"
	"github.com/libp2p/go-libp2p/core/peer"
	"google.golang.org/protobuf/proto"
	"pgregory.net/rapid"
)

// C03 (heartbeats and re-observation requests): the two p2p verifiers against an independent
// accept predicate, plus the per-guardian bound of the heartbeat table.

const (
	hbPrefix  = "heartbeat|"
	reqPrefix = "signed_observation_request|"
	floor     = 34
	maxNodes  = 15
)

type c03Msg struct {
	Type    string `json:"type"`   // "hb" | "req"
	Signer  int    `json:"signer"` // pool key that signs
	Claim   int    `json:"claim"`  // pool key whose address is claimed (-1: same as signer)
	Peer    int    `json:"peer"`   // p2p peer id (heartbeats)
	BodyLen int    `json:"bodylen"` // target length of the serialized body (0 = natural)
	Seed    uint64 `json:"seed"`
	Mut     string `json:"mut"` // single mutation applied after signing (or to the signing procedure)
	X       int    `json:"x"`
}

type c03Case struct {
	SetSize  int      `json:"setsize"`
	SetOff   int      `json:"setoff"`
	NewSet   int      `json:"newset"` // size of a second set (0 = none), installed at step SwitchAt
	NewOff   int      `json:"newoff"`
	SwitchAt int      `json:"switchat"`
	Msgs     []c03Msg `json:"msgs"`
}

var c03Muts = []string{"none", "none", "none", "none", "flip-body", "flip-sig", "flip-addr", "other-prefix", "no-prefix", "raw-digest", "short-sig", "long-sig", "recid", "empty-sig", "empty-addr", "addr-19", "garbage-body", "empty-body", "nil-body", "recid-alias"}

// body builds a decodable protobuf body of (about) the requested length.
func (m c03Msg) body() []byte {
	if m.Type == "hb" {
		h := &gossipv1.Heartbeat{}
		switch {
		case m.BodyLen == 0:
			h.NodeName = fmt.Sprintf("node-%d", m.Seed%7)
			h.Counter = int64(m.Seed)
			h.Timestamp = 1700000000000000000 + int64(m.Seed)
			h.Version = "v1.2.3"
			h.Networks = []*gossipv1.Heartbeat_Network{{Id: 2, Height: int64(m.Seed), ContractAddress: "0xabc"}}
		case m.BodyLen >= 2:
			n := m.BodyLen - 2
			if n > 120 {
				n = 120
			}
			name := make([]byte, n)
			for i := range name {
				name[i] = 'a' + byte((int(m.Seed)+i)%26)
			}
			h.NodeName = string(name)
		}
		b, _ := proto.Marshal(h)
		return b
	}
	r := &gossipv1.ObservationRequest{ChainId: uint32(1 + m.Seed%3)}
	switch {
	case m.BodyLen == 0:
		r.TxHash = vh.Expand(m.Seed, 32)
	case m.BodyLen >= 4:
		n := m.BodyLen - 4
		if n > 120 {
			n = 120
		}
		r.TxHash = vh.Expand(m.Seed, n)
	default:
		r.ChainId = 0
		if m.BodyLen >= 2 {
			r.TxHash = vh.Expand(m.Seed, m.BodyLen-2)
		}
	}
	b, _ := proto.Marshal(r)
	return b
}

func prefixOf(t string) string {
	if t == "hb" {
		return hbPrefix
	}
	return reqPrefix
}

type built struct {
	body, sig, addr []byte
}

func (m c03Msg) build() built {
	body := m.body()
	claim := m.Claim
	if claim < 0 {
		claim = m.Signer
	}
	signed := append([]byte(prefixOf(m.Type)), body...)
	switch m.Mut {
	case "other-prefix":
		other := "hb"
		if m.Type == "hb" {
			other = "req"
		}
		signed = append([]byte(prefixOf(other)), body...)
	case "no-prefix":
		signed = body
	}
	digest := ethcrypto.Keccak256(signed)
	if m.Mut == "raw-digest" {
		// cross-type replay: the kind of signature a guardian makes for a VAA (over a 32-byte value directly)
		digest = ethcrypto.Keccak256(ethcrypto.Keccak256(body))
	}
	b := built{body: body, sig: vh.SignDigest(m.Signer, digest), addr: vh.Addr(claim).Bytes()}
	switch m.Mut {
	case "flip-body":
		if len(b.body) > 0 {
			b.body = append([]byte{}, b.body...)
			b.body[m.X%len(b.body)] ^= byte(1 << (uint(m.X) % 8))
		}
	case "flip-sig":
		b.sig[m.X%64] ^= byte(1 << (uint(m.X) % 8))
	case "flip-addr":
		b.addr[m.X%20] ^= byte(1 << (uint(m.X) % 8))
	case "short-sig":
		b.sig = b.sig[:64]
	case "long-sig":
		b.sig = append(b.sig, 0)
	case "recid":
		b.sig[64] = byte(4 + m.X%252)
	case "recid-alias": // the valid signature with its recovery id written the EVM way (27/28) or the EIP-155 way
		if len(b.sig) == 65 {
			b.sig[64] += []byte{27, 27, 35, 37}[m.X%4]
		}
	case "empty-sig":
		b.sig = nil
	case "empty-addr":
		b.addr = nil
	case "addr-19":
		b.addr = b.addr[1:]
	case "garbage-body":
		b.body = vh.Expand(m.Seed, 40+m.X%40)
		b.sig = vh.SignDigest(m.Signer, ethcrypto.Keccak256(append([]byte(prefixOf(m.Type)), b.body...)))
	case "empty-body":
		b.body = []byte{}
		b.sig = vh.SignDigest(m.Signer, ethcrypto.Keccak256([]byte(prefixOf(m.Type))))
	case "nil-body":
		b.body = nil
		b.sig = vh.SignDigest(m.Signer, ethcrypto.Keccak256([]byte(prefixOf(m.Type))))
	}
	return b
}

// acceptable is the independent predicate of the statement.
func acceptable(t string, b built, set []common.Address) (common.Address, bool, string) {
	claimed := common.BytesToAddress(b.addr)
	in := false
	for _, a := range set {
		if a == claimed {
			in = true
		}
	}
	if !in {
		return claimed, false, "claimed address not in the guardian set"
	}
	if len(prefixOf(t))+len(b.body) < floor {
		return claimed, false, "signed bytes shorter than the 34-byte floor"
	}
	a, err := vh.RefRecover(ethcrypto.Keccak256(append([]byte(prefixOf(t)), b.body...)), b.sig)
	if err != nil {
		return claimed, false, "signature does not recover"
	}
	if a != claimed {
		return claimed, false, "signature recovers to another address (wrong key, wrong prefix or other signed bytes)"
	}
	var err2 error
	if t == "hb" {
		err2 = proto.Unmarshal(b.body, &gossipv1.Heartbeat{})
	} else {
		err2 = proto.Unmarshal(b.body, &gossipv1.ObservationRequest{})
	}
	if err2 != nil {
		return claimed, false, "body does not decode"
	}
	return claimed, true, ""
}

func mkSet(size, off int) *node_common.GuardianSet {
	gs := &node_common.GuardianSet{Index: uint32(off)}
	for i := 0; i < size; i++ {
		gs.Keys = append(gs.Keys, vh.Addr(off+i))
	}
	return gs
}

func snapshot(gst *node_common.GuardianSetState) map[string]string {
	out := map[string]string{}
	for a, m := range gst.GetAll() {
		for p, hb := range m {
			b, _ := proto.Marshal(hb)
			out[a.Hex()+"/"+string(p)] = string(b)
		}
	}
	return out
}

func runC03(c c03Case) (*vh.Violation, vh.Outcome) {
	o := vh.Outcome{}
	gs := mkSet(c.SetSize, c.SetOff)
	gst := node_common.NewGuardianSetState(nil)
	gst.Set(gs)
	accepted, rejectedMut := false, false
	for i, m := range c.Msgs {
		if c.NewSet > 0 && i == c.SwitchAt {
			gs = mkSet(c.NewSet, c.NewOff)
			gst.Set(gs)
			o.Labels = append(o.Labels, "set-change")
		}
		b := m.build()
		claimed, ok, why := acceptable(m.Type, b, gs.Keys)
		before := snapshot(gst)
		from := peer.ID(fmt.Sprintf("peer-%02d", m.Peer))
		if m.Type == "hb" {
			nodes := len(gst.GetAll()[claimed])
			_, known := gst.GetAll()[claimed][from]
			got, err := callHB(from, &gossipv1.SignedHeartbeat{Heartbeat: b.body, Signature: b.sig, GuardianAddr: b.addr}, gs, gst)
			if pe, isPanic := err.(panicErr); isPanic {
				return vh.V("C03/panic", "msg %d: processSignedHeartbeat panicked: %v", i, pe.v), o
			}
			after := snapshot(gst)
			for a, mm := range gst.GetAll() {
				if len(mm) > maxNodes {
					return vh.V("C03/heartbeat-table-unbounded", "msg %d: guardian %s has %d node entries", i, a.Hex(), len(mm)), o
				}
			}
			if !ok {
				o.Labels = append(o.Labels, "hb-rejected:"+m.Mut)
				if m.Mut != "none" {
					rejectedMut = true
				}
				if err == nil || got != nil || !reflect.DeepEqual(before, after) {
					return vh.V("C03/unacceptable-heartbeat-changed-state", "msg %d (%s): a heartbeat that must be dropped (%s) was accepted=%v and the heartbeat table changed=%v", i, m.Mut, why, err == nil, !reflect.DeepEqual(before, after)), o
				}
				continue
			}
			if nodes >= maxNodes {
				o.Labels = append(o.Labels, "hb-at-node-cap")
				// at the cap the statement only bounds the table; new node entries must not appear
				if !known && len(gst.GetAll()[claimed]) > nodes {
					return vh.V("C03/heartbeat-table-unbounded", "msg %d: node entry added beyond the cap", i), o
				}
				continue
			}
			if err != nil || got == nil {
				return vh.V("C03/valid-heartbeat-rejected", "msg %d: a heartbeat signed under the heartbeat prefix by guardian %s (in the set, %d signed bytes) was rejected: %v", i, claimed.Hex(), len(hbPrefix)+len(b.body), err), o
			}
			accepted = true
			want := &gossipv1.Heartbeat{}
			_ = proto.Unmarshal(b.body, want)
			stored := gst.GetAll()[claimed][from]
			if stored == nil || !proto.Equal(stored, want) || !proto.Equal(got, want) {
				return vh.V("C03/heartbeat-stored-wrong", "msg %d: accepted heartbeat not stored under (claimed guardian, sending peer)", i), o
			}
			delete(after, claimed.Hex()+"/"+string(from))
			delete(before, claimed.Hex()+"/"+string(from))
			if !reflect.DeepEqual(before, after) {
				return vh.V("C03/heartbeat-touched-other-entry", "msg %d: accepting a heartbeat changed another table entry", i), o
			}
		} else {
			got, err := callReq(&gossipv1.SignedObservationRequest{ObservationRequest: b.body, Signature: b.sig, GuardianAddr: b.addr}, gs)
			if pe, isPanic := err.(panicErr); isPanic {
				return vh.V("C03/panic", "msg %d: processSignedObservationRequest panicked: %v", i, pe.v), o
			}
			if !reflect.DeepEqual(before, snapshot(gst)) {
				return vh.V("C03/request-changed-heartbeat-table", "msg %d", i), o
			}
			if !ok {
				o.Labels = append(o.Labels, "req-rejected:"+m.Mut)
				if m.Mut != "none" {
					rejectedMut = true
				}
				if err == nil || got != nil {
					return vh.V("C03/unacceptable-request-forwarded", "msg %d (%s): a re-observation request that must be dropped (%s) was returned for forwarding", i, m.Mut, why), o
				}
				continue
			}
			if err != nil || got == nil {
				return vh.V("C03/valid-request-rejected", "msg %d: a request signed under the request prefix by guardian %s (in the set, %d signed bytes) was rejected: %v", i, claimed.Hex(), len(reqPrefix)+len(b.body), err), o
			}
			accepted = true
			want := &gossipv1.ObservationRequest{}
			_ = proto.Unmarshal(b.body, want)
			if !proto.Equal(got, want) {
				return vh.V("C03/request-altered", "msg %d: forwarded request differs from the signed one", i), o
			}
		}
	}
	o.NonTrivial = accepted && rejectedMut
	if v := c03Canary(); v != nil {
		return v, o
	}
	return nil, o
}

// c03Canary: whatever was received before - accepted or dropped - the checks still mean the same afterwards. A fixed
// valid heartbeat and a fixed valid request of a guardian of a fresh set are accepted, and each one's signature is
// refused for the other purpose. (Without this, a message that damages package-level verification state would only
// make *later* cases fail, and those would not reproduce on their own.)
func c03Canary() *vh.Violation {
	gs := mkSet(3, 40)
	gst := node_common.NewGuardianSetState(nil)
	gst.Set(gs)
	hb, _ := proto.Marshal(&gossipv1.Heartbeat{NodeName: "canary-node", Counter: 7, Timestamp: 1700000000, GuardianAddr: vh.Addr(40).Hex(), BootTimestamp: 1699990000})
	rq, _ := proto.Marshal(&gossipv1.ObservationRequest{ChainId: 2, TxHash: vh.Expand(4040, 32)})
	hbSig := vh.SignDigest(40, ethcrypto.Keccak256(append([]byte(hbPrefix), hb...)))
	rqSig := vh.SignDigest(40, ethcrypto.Keccak256(append([]byte(reqPrefix), rq...)))
	addr := vh.Addr(40).Bytes()
	if _, err := callHB(peer.ID("canary-peer"), &gossipv1.SignedHeartbeat{Heartbeat: hb, Signature: hbSig, GuardianAddr: addr}, gs, gst); err != nil {
		return vh.V("C03/earlier-message-corrupted-verification", "after the messages of this case a valid heartbeat of a current guardian is rejected: %v", err)
	}
	if _, err := callReq(&gossipv1.SignedObservationRequest{ObservationRequest: rq, Signature: rqSig, GuardianAddr: addr}, gs); err != nil {
		return vh.V("C03/earlier-message-corrupted-verification", "after the messages of this case a valid re-observation request of a current guardian is rejected: %v", err)
	}
	if got, err := callReq(&gossipv1.SignedObservationRequest{ObservationRequest: hb, Signature: hbSig, GuardianAddr: addr}, gs); err == nil && got != nil {
		return vh.V("C03/earlier-message-corrupted-verification", "after the messages of this case a heartbeat signature is accepted for a re-observation request")
	}
	if got, err := callHB(peer.ID("canary-peer-2"), &gossipv1.SignedHeartbeat{Heartbeat: rq, Signature: rqSig, GuardianAddr: addr}, gs, gst); err == nil && got != nil {
		return vh.V("C03/earlier-message-corrupted-verification", "after the messages of this case a re-observation request signature is accepted for a heartbeat")
	}
	// and a heartbeat whose first signed bytes a short, dropped heartbeat could have left behind
	for n := 0; n <= 27; n += 9 {
		short := hb[:n]
		_, _ = callHB(peer.ID("canary-peer-3"), &gossipv1.SignedHeartbeat{Heartbeat: short, Signature: hbSig, GuardianAddr: addr}, gs, gst)
		if _, err := callReq(&gossipv1.SignedObservationRequest{ObservationRequest: rq, Signature: rqSig, GuardianAddr: addr}, gs); err != nil {
			return vh.V("C03/earlier-message-corrupted-verification", "a dropped %d-byte heartbeat made the next valid re-observation request fail: %v", n, err)
		}
	}
	return nil
}

type panicErr struct{ v any }

func (p panicErr) Error() string { return fmt.Sprint(p.v) }

func callHB(from peer.ID, s *gossipv1.SignedHeartbeat, gs *node_common.GuardianSet, gst *node_common.GuardianSetState) (h *gossipv1.Heartbeat, err error) {
	defer func() {
		if r := recover(); r != nil {
			err = panicErr{r}
		}
	}()
	return processSignedHeartbeat(from, s, gs, gst, false)
}

func callReq(s *gossipv1.SignedObservationRequest, gs *node_common.GuardianSet) (h *gossipv1.ObservationRequest, err error) {
	defer func() {
		if r := recover(); r != nil {
			err = panicErr{r}
		}
	}()
	return processSignedObservationRequest(s, gs)
}

func genC03(t *rapid.T) c03Case {
	c := c03Case{SetSize: rapid.IntRange(1, 19).Draw(t, "setsize"), SetOff: rapid.IntRange(0, 3).Draw(t, "setoff")}
	if rapid.IntRange(0, 2).Draw(t, "change") == 0 {
		c.NewSet = rapid.IntRange(1, 19).Draw(t, "newset")
		c.NewOff = rapid.SampledFrom([]int{0, 1, 2, 5, 30}).Draw(t, "newoff")
	}
	msg := rapid.Custom(func(t *rapid.T) c03Msg {
		m := c03Msg{Type: rapid.SampledFrom([]string{"hb", "hb", "req"}).Draw(t, "type"), Signer: rapid.OneOf(rapid.IntRange(0, 5), rapid.IntRange(0, 40)).Draw(t, "signer"), Claim: -1,
			Peer: rapid.OneOf(rapid.IntRange(0, 3), rapid.IntRange(0, 24)).Draw(t, "peer"), Seed: rapid.Uint64Range(0, 1000).Draw(t, "seed"),
			Mut: rapid.SampledFrom(c03Muts).Draw(t, "mut"), X: rapid.IntRange(0, 1000).Draw(t, "x")}
		if rapid.IntRange(0, 5).Draw(t, "claimother") == 0 {
			m.Claim = rapid.IntRange(0, 20).Draw(t, "claim") // member A signs with member B's address
		}
		if rapid.IntRange(0, 2).Draw(t, "short") == 0 {
			// around the length floor: signed bytes 32, 33 (must die) and 34, 35 (fine)
			pl := len(prefixOf(m.Type))
			m.BodyLen = rapid.SampledFrom([]int{30, 31, 32, 33, 34, 35, 36, 40}).Draw(t, "signedlen") - pl
			if m.BodyLen < 1 {
				m.BodyLen = 1
			}
		}
		return m
	})
	c.Msgs = rapid.SliceOfN(msg, 1, 40).Draw(t, "msgs")
	c.SwitchAt = rapid.IntRange(0, len(c.Msgs)).Draw(t, "switchat")
	return c
}

func TestVerif_C03_P2P(t *testing.T) {
	vh.Check(t, vh.Prop[c03Case]{ID: "C03", Gen: genC03, Run: runC03})
}

// many node ids for one guardian: the table stays bounded
func TestVerif_C03_HeartbeatTable(t *testing.T) {
	vh.Check(t, vh.Prop[c03Case]{ID: "C03", Gen: func(t *rapid.T) c03Case {
		c := c03Case{SetSize: rapid.IntRange(1, 3).Draw(t, "setsize")}
		n := rapid.IntRange(10, 60).Draw(t, "n")
		for i := 0; i < n; i++ {
			c.Msgs = append(c.Msgs, c03Msg{Type: "hb", Signer: rapid.IntRange(0, c.SetSize-1).Draw(t, "signer"), Claim: -1, Peer: rapid.IntRange(0, 24).Draw(t, "peer"), Seed: uint64(i), Mut: "none"})
		}
		return c
	}, Run: func(c c03Case) (*vh.Violation, vh.Outcome) {
		v, o := runC03(c)
		o.NonTrivial = false
		for _, l := range o.Labels {
			if l == "hb-at-node-cap" {
				o.NonTrivial = true
			}
		}
		return v, o
	}})
}
