//go:build verif

package vaa

import (
	"bytes"
	"math/big"
	"testing"
	"time"

	vh "github.com/alephium/wormhole-fork/node/zzverif"
	"github.com/ethereum/go-ethereum/common"
	"pgregory.net/rapid"
)

// C04 (d): the wire form produced by the Go serializer, signed over the Go digest, is parsed by
// the layouts extracted from Messages.sol parseVM and governance.ral parseAndVerifyVAA into the
// same field values, and both recompute the digest the signatures were made over.

type c04cCase struct {
	Body  vh.BodyCase `json:"body"`
	GS    uint32      `json:"gs"`
	N     int         `json:"n"`     // guardian set size
	Extra int         `json:"extra"` // signatures beyond quorum
	Nanos int64       `json:"nanos"`
}

func TestVerif_C04_Contracts(t *testing.T) {
	c, err := vh.LoadContracts()
	if err != nil {
		t.Fatalf("VERIF-VIOLATION harness/extractor: %v", err)
	}
	vh.Check(t, vh.Prop[c04cCase]{ID: "C04", Gen: func(t *rapid.T) c04cCase {
		return c04cCase{Body: vh.GenBody(t, "b", 0, 1500, 32, 33, 100, 101, 1000), GS: vh.U32Edge().Draw(t, "gs"),
			N: rapid.OneOf(rapid.IntRange(1, 4), rapid.IntRange(1, 19)).Draw(t, "n"), Extra: rapid.IntRange(0, 3).Draw(t, "extra"),
			Nanos: rapid.OneOf(rapid.Just(int64(0)), rapid.Int64Range(0, 999999999)).Draw(t, "nanos")}
	}, Run: func(cs c04cCase) (*vh.Violation, vh.Outcome) {
		b := cs.Body.Body()
		o := vh.Outcome{NonTrivial: len(b.Payload) != 6 && (b.Timestamp == 0 || b.Timestamp == 1<<32-1 || b.Nonce == 1<<32-1 || b.EmitterChain == 65535 || b.TargetChain == 65535 || b.Sequence == 1<<64-1 || b.CL == 255 || len(b.Payload) == 0 || cs.Nanos != 0)}
		v := &VAA{Version: 1, GuardianSetIndex: cs.GS, Timestamp: time.Unix(int64(b.Timestamp), cs.Nanos), Nonce: b.Nonce, Sequence: b.Sequence, ConsistencyLevel: b.CL,
			EmitterChain: ChainID(b.EmitterChain), TargetChain: ChainID(b.TargetChain), EmitterAddress: Address(b.Emitter), Payload: b.Payload}
		set := make([]common.Address, cs.N)
		for i := range set {
			set[i] = vh.Addr(i)
		}
		k := vh.RefQuorum(cs.N) + cs.Extra
		if k > cs.N {
			k = cs.N
		}
		for i := 0; i < k; i++ {
			v.AddSignature(vh.Key(i), uint8(i)) // signs v.SigningMsg(): the digest under test
		}
		wire, err := v.Marshal()
		if err != nil {
			return vh.V("C04/marshal-error", "%v", err), o
		}
		// ---- Alephium
		rv, err := c.RalphParseAndVerify(wire, cs.GS, set)
		if err != nil {
			if vh.IsAbort(err) {
				return vh.V("C04/ralph-contract-disagrees", "governance.ral parseAndVerifyVAA does not accept the Go encoding signed over the Go digest (n=%d, %d sigs, payload %d): %v", cs.N, k, len(b.Payload), err), o
			}
			return vh.V("harness/extractor", "%v", err), o
		}
		if rv.EmitterChain != uint64(b.EmitterChain) || rv.TargetChain != uint64(b.TargetChain) || !bytes.Equal(rv.Emitter, b.Emitter[:]) ||
			rv.Sequence.Cmp(new(big.Int).SetUint64(b.Sequence)) != 0 || !bytes.Equal(rv.Payload, b.Payload) {
			return vh.V("C04/ralph-fields-differ", "governance.ral parses emitterChain=%d targetChain=%d sequence=%v payload(%d) from a VAA with %d/%d/%d/payload(%d)",
				rv.EmitterChain, rv.TargetChain, rv.Sequence, len(rv.Payload), b.EmitterChain, b.TargetChain, b.Sequence, len(b.Payload)), o
		}
		// ---- Ethereum
		vm, err := c.SolParseVM(wire)
		if err != nil {
			if vh.IsAbort(err) {
				return vh.V("C04/solidity-contract-disagrees", "Messages.sol parseVM cannot read the Go encoding: %v", err), o
			}
			return vh.V("harness/extractor", "%v", err), o
		}
		want := map[string]uint64{"version": 1, "guardianSetIndex": uint64(cs.GS), "timestamp": uint64(b.Timestamp), "nonce": uint64(b.Nonce),
			"emitterChainId": uint64(b.EmitterChain), "targetChainId": uint64(b.TargetChain), "sequence": b.Sequence, "consistencyLevel": uint64(b.CL)}
		for f, w := range want {
			g, ok := vm.Fields[f]
			if !ok {
				return vh.V("harness/extractor", "parseVM no longer reads %s", f), o
			}
			if g.Cmp(new(big.Int).SetUint64(w)) != 0 {
				return vh.V("C04/solidity-fields-differ", "Messages.sol parseVM reads %s=%v, the VAA has %d", f, g, w), o
			}
		}
		if ea := vm.Fields["emitterAddress"]; ea == nil || ea.Cmp(new(big.Int).SetBytes(b.Emitter[:])) != 0 {
			return vh.V("C04/solidity-fields-differ", "Messages.sol parseVM reads a different emitter address"), o
		}
		if !bytes.Equal(vm.Payload, b.Payload) {
			return vh.V("C04/solidity-fields-differ", "Messages.sol parseVM reads payload of %d bytes, VAA has %d", len(vm.Payload), len(b.Payload)), o
		}
		if vh.RefDigest(vm.BodyBytes) != [32]byte(v.SigningMsg()) {
			return vh.V("C04/solidity-digest-differs", "keccak(keccak(body)) over the bytes Messages.sol hashes differs from SigningMsg()"), o
		}
		if err := c.SolVerify(vm, set); err != nil {
			return vh.V("C04/solidity-contract-disagrees", "Messages.sol verification rejects the Go encoding signed over the Go digest: %v", err), o
		}
		return nil, o
	}})
}
