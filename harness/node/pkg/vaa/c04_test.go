//go:build verif

package vaa

import (
	"bytes"
	"fmt"
	"testing"
	"time"

	vh "github.com/alephium/wormhole-fork/node/zzverif"
	"pgregory.net/rapid"
)

// C04: the signing digest is the double keccak of the big-endian body, independent of the
// header and of sub-second time, and injective in every body field.

type c04Case struct {
	V vaaCase `json:"v"`
	// header / non-body variations that must leave body and digest unchanged
	Version2 uint8     `json:"version2"`
	GS2      uint32    `json:"gs2"`
	Sigs2    []sigCase `json:"sigs2"`
	Nanos2   int64     `json:"nanos2"`
	// single body-field mutation that must change the body
	MutField string `json:"mutfield"`
	MutDelta uint64 `json:"mutdelta"`
	PayPos   int    `json:"paypos"`
}

var c04Fields = []string{"ts", "nonce", "ec", "tc", "addr", "seq", "cl", "payflip", "payappend", "paytrunc", "payshift"}

func genC04(t *rapid.T) c04Case {
	c := c04Case{V: genVAACase(t, 0, 3000)}
	c.V.Version = rapid.OneOf(rapid.Just(uint8(1)), rapid.Uint8()).Draw(t, "version")
	c.V.Nanos = rapid.OneOf(rapid.Just(int64(0)), rapid.Int64Range(0, 999999999)).Draw(t, "nanos")
	if len(c.V.Sigs) > 6 {
		c.V.Sigs = c.V.Sigs[:6]
	}
	c.Version2 = rapid.Uint8().Draw(t, "version2")
	c.GS2 = vh.U32Edge().Draw(t, "gs2")
	n2 := rapid.IntRange(0, 4).Draw(t, "nsigs2")
	for i := 0; i < n2; i++ {
		c.Sigs2 = append(c.Sigs2, sigCase{Index: uint8(i), Seed: rapid.Uint64Range(0, 1000).Draw(t, "s2")})
	}
	c.Nanos2 = rapid.Int64Range(0, 999999999).Draw(t, "nanos2")
	c.MutField = rapid.SampledFrom(c04Fields).Draw(t, "mutfield")
	c.MutDelta = rapid.OneOf(rapid.Uint64Range(1, 8), rapid.Uint64Range(1, 1<<62), rapid.SampledFrom([]uint64{1, 255, 256, 65535, 65536, 1 << 31, 1 << 32})).Draw(t, "delta")
	c.PayPos = rapid.IntRange(0, 1<<16).Draw(t, "paypos")
	return c
}

func runC04(c c04Case) (*vh.Violation, vh.Outcome) {
	b := c.V.Body.Body()
	o := vh.Outcome{}
	edge := b.Timestamp == 0 || b.Timestamp == 1<<32-1 || b.Nonce == 0 || b.Nonce == 1<<32-1 || b.EmitterChain == 65535 || b.TargetChain == 65535 ||
		b.Sequence == 1<<64-1 || b.CL == 255 || b.CL == 0 || len(b.Payload) == 0
	o.NonTrivial = len(b.Payload) != 6 && edge
	if c.V.Nanos != 0 {
		o.Labels = append(o.Labels, "subsecond")
	}
	if len(b.Payload) == 0 {
		o.Labels = append(o.Labels, "empty-payload")
	}
	o.Labels = append(o.Labels, "mut:"+c.MutField)

	v := c.V.value()
	wantBody := vh.RefBody(b)
	// (a) differential against the independent reference
	if got := v.SerializeBody(); !bytes.Equal(got, wantBody) {
		return vh.V("C04/body-layout", "SerializeBody differs from be32(ts) be32(nonce) be16(ec) be16(tc) addr32 be64(seq) u8(cl) payload: got %x want %x", trunc(got), trunc(wantBody)), o
	}
	// the signing body handed out now is looked at again at the very end, after other values were serialised
	held := v.SerializeBody()
	wantDigest := vh.RefDigest(wantBody)
	if got := v.SigningMsg(); [32]byte(got) != wantDigest {
		return vh.V("C04/digest-not-double-keccak", "SigningMsg %x != keccak(keccak(body)) %x", got, wantDigest), o
	}
	// determinism
	if v.SigningMsg() != v.SigningMsg() || !bytes.Equal(v.SerializeBody(), v.SerializeBody()) {
		return vh.V("C04/nondeterministic", "two computations of the digest/body of one value differ"), o
	}
	// Marshal = header || body at offset 6+66n
	wire, err := v.Marshal()
	if err != nil {
		return vh.V("C04/marshal-error", "%v", err), o
	}
	off := 6 + 66*len(c.V.Sigs)
	if len(wire) < off || !bytes.Equal(wire[off:], wantBody) {
		return vh.V("C04/wire-body-offset", "Marshal does not carry the signing body at offset 6+66*nsigs"), o
	}
	// the digest recomputed from the wire form (what a peer, the explorer and the contracts start from) is the same one
	if v.Version == 1 && len(b.Payload) > 0 {
		u, err := Unmarshal(wire)
		if err != nil {
			return vh.V("C04/wire-form-not-readable", "Unmarshal(Marshal(v)): %v", err), o
		}
		if [32]byte(u.SigningMsg()) != wantDigest {
			return vh.V("C04/digest-from-wire-differs", "the digest of Unmarshal(Marshal(v)) differs from the digest of v (payload %d bytes, decoded payload %d bytes)", len(b.Payload), len(u.Payload)), o
		}
		if len(b.Payload) > 1000 {
			o.Labels = append(o.Labels, "wire-digest-long-payload")
		}
		// the digest of a parsed message does not depend on what happens to the buffer it was parsed from
		scratch := append([]byte{}, wire...)
		u2, err := Unmarshal(scratch)
		if err == nil {
			for i := range scratch {
				scratch[i] = 0xee
			}
			if [32]byte(u2.SigningMsg()) != wantDigest {
				return vh.V("C04/digest-depends-on-input-buffer", "the digest of a parsed VAA changed when the buffer it was parsed from was reused"), o
			}
		}
	}
	// (b) header independence
	w := c.V
	w.Version, w.GSIndex, w.Sigs, w.Nanos = c.Version2, c.GS2, c.Sigs2, c.Nanos2
	v2 := w.value()
	if !bytes.Equal(v2.SerializeBody(), wantBody) || [32]byte(v2.SigningMsg()) != wantDigest {
		return vh.V("C04/header-dependence", "changing version/set index/signatures/sub-second time changed the signing body or digest"), o
	}
	// time zone / monotonic reading of the same instant must not matter either
	v3 := c.V.value()
	v3.Timestamp = v3.Timestamp.In(time.FixedZone("x", 3600*5))
	if [32]byte(v3.SigningMsg()) != wantDigest {
		return vh.V("C04/header-dependence", "digest depends on the time zone of the timestamp"), o
	}
	// (c) injectivity: left inverse and single-field mutants
	back, err := vh.RefParseBody(v.SerializeBody())
	if err != nil {
		return vh.V("C04/body-not-invertible", "%v", err), o
	}
	if back.Timestamp != b.Timestamp || back.Nonce != b.Nonce || back.EmitterChain != b.EmitterChain || back.TargetChain != b.TargetChain ||
		back.Emitter != b.Emitter || back.Sequence != b.Sequence || back.CL != b.CL || !bytes.Equal(back.Payload, b.Payload) {
		return vh.V("C04/body-not-invertible", "fields recovered from the body differ from the value's fields"), o
	}
	m := c.V.value()
	_ = m.SigningMsg() // prime any memoised digest: a later in-place change of the body must still be reflected
	_ = m.SerializeBody()
	changed := true
	switch c.MutField {
	case "ts":
		m.Timestamp = time.Unix(int64(b.Timestamp+uint32(nz32(c.MutDelta))), c.V.Nanos)
	case "nonce":
		m.Nonce += nz32(c.MutDelta)
	case "ec":
		m.EmitterChain += ChainID(nz16(c.MutDelta))
	case "tc":
		m.TargetChain += ChainID(nz16(c.MutDelta))
	case "addr":
		m.EmitterAddress[c.PayPos%32] ^= byte(1 << (c.MutDelta % 8))
	case "seq":
		m.Sequence += c.MutDelta
	case "cl":
		m.ConsistencyLevel += nz8(c.MutDelta)
	case "payflip":
		if len(b.Payload) == 0 {
			changed = false
		} else {
			p := append([]byte{}, b.Payload...)
			p[c.PayPos%len(p)] ^= byte(1 << (c.MutDelta % 8))
			m.Payload = p
		}
	case "payappend":
		m.Payload = append(append([]byte{}, b.Payload...), byte(c.MutDelta))
	case "paytrunc":
		if len(b.Payload) == 0 {
			changed = false
		} else {
			m.Payload = b.Payload[:len(b.Payload)-1]
		}
	case "payshift": // move one byte from the consistency level into the payload: same concatenation only if layout is ambiguous
		m.Payload = append([]byte{m.ConsistencyLevel}, b.Payload...)
		m.ConsistencyLevel = byte(m.Sequence)
		m.Sequence = m.Sequence >> 8
		if bytes.Equal(m.Payload, b.Payload) && m.ConsistencyLevel == b.CL && m.Sequence == b.Sequence {
			changed = false
		}
	}
	if changed {
		if bytes.Equal(m.SerializeBody(), wantBody) {
			return vh.V("C04/not-injective", "two messages differing in %s share one signing body", c.MutField), o
		}
		if [32]byte(m.SigningMsg()) == wantDigest {
			return vh.V("C04/not-injective", "two messages differing in %s share one digest", c.MutField), o
		}
	}
	if !bytes.Equal(held, wantBody) {
		return vh.V("C04/body-not-stable", "the signing body returned for a message changed after other messages were serialised (got %x want %x)", trunc(held), trunc(wantBody)), o
	}
	return nil, o
}

// Every honest guardian signs the same 32 bytes: digests computed concurrently for different messages (as the
// processor, the p2p layer and the RPC server do) are each the digest of their own message.
type c04ParCase struct {
	Bodies []vh.BodyCase `json:"bodies"`
	Rounds int           `json:"rounds"`
}

func runC04Par(c c04ParCase) (*vh.Violation, vh.Outcome) {
	o := vh.Outcome{NonTrivial: len(c.Bodies) >= 2}
	type job struct {
		v    *VAA
		body []byte
		want [32]byte
	}
	var jobs []job
	for _, bc := range c.Bodies {
		b := bc.Body()
		v := &VAA{Version: 1, Timestamp: time.Unix(int64(b.Timestamp), 0), Nonce: b.Nonce, EmitterChain: ChainID(b.EmitterChain), TargetChain: ChainID(b.TargetChain),
			EmitterAddress: Address(b.Emitter), Sequence: b.Sequence, ConsistencyLevel: b.CL, Payload: b.Payload}
		rb := vh.RefBody(b)
		jobs = append(jobs, job{v, rb, vh.RefDigest(rb)})
	}
	errs := make(chan string, 2*len(jobs))
	done := make(chan struct{}, len(jobs))
	for i := range jobs {
		go func(j job) {
			defer func() {
				if r := recover(); r != nil {
					select {
					case errs <- fmt.Sprintf("a panic (%v) instead of SigningMsg/Marshal", r):
					default:
					}
				}
				done <- struct{}{}
			}()
			for r := 0; r < c.Rounds; r++ {
				if got := j.v.SigningMsg(); [32]byte(got) != j.want {
					select {
					case errs <- "SigningMsg":
					default:
					}
					return
				}
				if w, err := j.v.Marshal(); err != nil || !bytes.Equal(w[6:], j.body) {
					select {
					case errs <- "Marshal":
					default:
					}
					return
				}
			}
		}(jobs[i])
	}
	// The work is a few hash computations. A worker that has not come back after 20 s is stuck inside the digest
	// code (shared state left inconsistent by another goroutine), not slow.
	deadline := time.After(20 * time.Second)
	stuck := false
wait:
	for range jobs {
		select {
		case <-done:
		case <-deadline:
			stuck = true
			break wait
		}
	}
	select {
	case what := <-errs:
		return vh.V("C04/digest-depends-on-concurrent-use", "%s of a message returned another message's bytes while %d messages were serialised concurrently", what, len(jobs)), o
	default:
	}
	if stuck {
		return vh.V("C04/digest-depends-on-concurrent-use", "computing digests of %d messages concurrently did not finish within 20 s: a worker is stuck inside SigningMsg/Marshal", len(jobs)), o
	}
	return nil, o
}

func TestVerif_C04_Concurrent(t *testing.T) {
	vh.Check(t, vh.Prop[c04ParCase]{ID: "C04", Gen: func(t *rapid.T) c04ParCase {
		n := rapid.IntRange(2, 8).Draw(t, "n")
		c := c04ParCase{Rounds: rapid.IntRange(20, 200).Draw(t, "rounds")}
		for i := 0; i < n; i++ {
			c.Bodies = append(c.Bodies, vh.GenBody(t, fmt.Sprintf("b%d", i), 0, 300, 0, 1, 1000, 1001))
		}
		return c
	}, Run: runC04Par})
}

func nz32(d uint64) uint32 {
	if uint32(d) == 0 {
		return 1
	}
	return uint32(d)
}
func nz16(d uint64) uint16 {
	if uint16(d) == 0 {
		return 1
	}
	return uint16(d)
}
func nz8(d uint64) uint8 {
	if uint8(d) == 0 {
		return 1
	}
	return uint8(d)
}

func trunc(b []byte) []byte {
	if len(b) > 80 {
		return b[:80]
	}
	return b
}

func TestVerif_C04_Digest(t *testing.T) {
	vh.Check(t, vh.Prop[c04Case]{ID: "C04", Gen: genC04, Run: runC04})
}
