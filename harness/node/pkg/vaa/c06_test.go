//go:build verif

package vaa

import (
	"fmt"
	"testing"
	"time"

	vh "github.com/alephium/wormhole-fork/node/zzverif"
	"github.com/ethereum/go-ethereum/common"
	"pgregory.net/rapid"
)

// C06: VerifySignatures(list) <=> every index < len(list), indices strictly increasing, every
// signature recovers over the digest to list[index], no signer counted twice. Never panics.

type c06Sig struct {
	Index int `json:"i"` // claimed guardian index
	Key   int `json:"k"` // pool key that signs
}

type c06Corr struct {
	Kind string `json:"kind"`
	A    int    `json:"a"`
	B    int    `json:"b"`
}

type c06Case struct {
	N       int         `json:"n"`     // guardian list length
	KeyOf   []int       `json:"keyof"` // pool key of list position i (repeats allowed)
	Sigs    []c06Sig    `json:"sigs"`  // in wire order
	Body    vh.BodyCase `json:"body"`
	Corr    *c06Corr    `json:"corr,omitempty"`
	ListCut int         `json:"listcut"` // verify against list[:N-ListCut]
}

var c06Kinds = []string{"seq+1", "nonce+1", "ts+1", "emitter-flip", "chain+1", "cl+1", "bodyflip", "swap", "dup", "reindex", "outsider", "recid", "zero-r", "zero-s", "sigflip", "index-eq-len", "index-255", "unsorted-rotate", "recid-alias", "recid-alias", "signed-by-position", "mirror-s", "mirror-s"}

func genC06(t *rapid.T) c06Case {
	c := c06Case{}
	c.N = rapid.OneOf(rapid.IntRange(0, 6), rapid.IntRange(0, 19), rapid.IntRange(0, 255), rapid.SampledFrom([]int{0, 1, 2, 3, 19, 254, 255})).Draw(t, "n")
	c.KeyOf = make([]int, c.N)
	for i := range c.KeyOf {
		c.KeyOf[i] = i
	}
	if c.N >= 2 && rapid.IntRange(0, 3).Draw(t, "repeats") == 0 {
		k := rapid.IntRange(1, 3).Draw(t, "nrep")
		for j := 0; j < k; j++ {
			a := rapid.IntRange(0, c.N-1).Draw(t, "ra")
			b := rapid.IntRange(0, c.N-1).Draw(t, "rb")
			c.KeyOf[a] = c.KeyOf[b]
		}
	}
	// signer subset: ascending by construction, size skewed small to keep cases cheap
	if c.N > 0 {
		maxS := c.N
		if maxS > 24 {
			maxS = rapid.SampledFrom([]int{4, 8, 24, c.N}).Draw(t, "maxs")
		}
		want := rapid.IntRange(0, maxS).Draw(t, "nsig")
		if want > 0 {
			// choose `want` distinct positions via stride sampling
			start := rapid.IntRange(0, c.N-1).Draw(t, "start")
			pos := map[int]bool{}
			for i := 0; i < want; i++ {
				p := (start + i*rapid.IntRange(1, 7).Draw(t, "stride")) % c.N
				pos[p] = true
			}
			for p := 0; p < c.N; p++ {
				if pos[p] {
					c.Sigs = append(c.Sigs, c06Sig{Index: p, Key: c.KeyOf[p]})
				}
			}
		}
	}
	c.Body = vh.GenBody(t, "b", 1, 200)
	if rapid.IntRange(0, 2).Draw(t, "corrupt") > 0 {
		c.Corr = &c06Corr{Kind: rapid.SampledFrom(c06Kinds).Draw(t, "kind"), A: rapid.IntRange(0, 1<<16).Draw(t, "a"), B: rapid.IntRange(0, 1<<16).Draw(t, "b")}
	}
	if c.N > 0 && rapid.IntRange(0, 7).Draw(t, "cut") == 0 {
		c.ListCut = rapid.IntRange(1, c.N).Draw(t, "cutn")
	}
	return c
}

func runC06(c c06Case) (*vh.Violation, vh.Outcome) {
	o := vh.Outcome{}
	list := make([]common.Address, 0, c.N)
	repeats := false
	seenKey := map[int]bool{}
	for _, k := range c.KeyOf {
		list = append(list, vh.Addr(k))
		if seenKey[k] {
			repeats = true
		}
		seenKey[k] = true
	}
	body := c.Body.Body()
	bodyBytes := vh.RefBody(body)
	digest := vh.RefDigest(bodyBytes)

	type wsig struct {
		idx uint8
		sig [65]byte
	}
	var ws []wsig
	for _, s := range c.Sigs {
		var x wsig
		x.idx = uint8(s.Index)
		copy(x.sig[:], vh.SignDigest(s.Key, digest[:]))
		ws = append(ws, x)
	}
	verifyBody := body
	if c.Corr != nil {
		o.Labels = append(o.Labels, "corr:"+c.Corr.Kind)
		a, b := c.Corr.A, c.Corr.B
		switch c.Corr.Kind {
		case "bodyflip":
			p := append([]byte{}, body.Payload...)
			p[a%len(p)] ^= byte(1 << (uint(b) % 8))
			verifyBody.Payload = p
		case "seq+1":
			verifyBody.Sequence++
		case "nonce+1":
			verifyBody.Nonce++
		case "ts+1":
			verifyBody.Timestamp++
		case "emitter-flip":
			verifyBody.Emitter[a%32] ^= byte(1 << (uint(b) % 8))
		case "chain+1":
			if a%2 == 0 {
				verifyBody.EmitterChain++
			} else {
				verifyBody.TargetChain++
			}
		case "cl+1":
			verifyBody.CL++
		case "swap":
			if len(ws) >= 2 {
				i, j := a%len(ws), b%len(ws)
				ws[i], ws[j] = ws[j], ws[i]
			}
		case "dup":
			if len(ws) >= 1 {
				i := a % len(ws)
				ws = append(ws[:i+1], ws[i:]...)
			}
		case "reindex":
			if len(ws) >= 1 {
				ws[a%len(ws)].idx = uint8(b)
			}
		case "outsider":
			if len(ws) >= 1 {
				i := a % len(ws)
				copy(ws[i].sig[:], vh.SignDigest(260+b%30, digest[:]))
			}
		case "recid":
			if len(ws) >= 1 {
				ws[a%len(ws)].sig[64] = byte(2 + b%254)
			}
		case "recid-alias": // the same signature with its recovery id in another convention (27/28, EIP-155, +2, +4)
			if len(ws) >= 1 {
				i := a % len(ws)
				ws[i].sig[64] += []byte{27, 27, 27, 35, 37, 2, 4, 29}[b%8]
			}
		case "signed-by-position": // signed by the guardian whose index equals the signature's position in the list, not its claimed index
			for k := 0; k < len(ws); k++ {
				i := (a + k) % len(ws)
				if int(ws[i].idx) != i && i < len(c.KeyOf) {
					copy(ws[i].sig[:], vh.SignDigest(c.KeyOf[i], digest[:]))
					break
				}
			}
		case "mirror-s": // not a corruption: the high-s form of a signature is the same signature
			if len(ws) >= 1 {
				i := a % len(ws)
				copy(ws[i].sig[:], vh.MirrorS(ws[i].sig[:]))
			}
		case "zero-r":
			if len(ws) >= 1 {
				i := a % len(ws)
				for k := 0; k < 32; k++ {
					ws[i].sig[k] = 0
				}
			}
		case "zero-s":
			if len(ws) >= 1 {
				i := a % len(ws)
				for k := 32; k < 64; k++ {
					ws[i].sig[k] = 0
				}
			}
		case "sigflip":
			if len(ws) >= 1 {
				ws[a%len(ws)].sig[b%65] ^= byte(1 << (uint(a) % 8))
			}
		case "index-eq-len":
			if len(ws) >= 1 {
				ws[len(ws)-1].idx = uint8(c.N)
			}
		case "index-255":
			if len(ws) >= 1 {
				ws[len(ws)-1].idx = 255
			}
		case "unsorted-rotate":
			if len(ws) >= 2 {
				ws = append(ws[1:], ws[0])
			}
		}
	}
	use := list[:len(list)-c.ListCut]
	if c.ListCut > 0 {
		o.Labels = append(o.Labels, "list-shorter")
	}
	if repeats {
		o.Labels = append(o.Labels, "repeated-addresses")
	}
	o.NonTrivial = len(ws) >= 4 || repeats || c.Corr != nil

	// The VAA object is first built with the *original* body and verified once (any memoised state is
	// primed), then its body fields are changed in place to the corrupted body and it is verified again.
	v := &VAA{Version: 1, Timestamp: time.Unix(int64(body.Timestamp), 0), Nonce: body.Nonce, Sequence: body.Sequence, ConsistencyLevel: body.CL,
		EmitterChain: ChainID(body.EmitterChain), TargetChain: ChainID(body.TargetChain), EmitterAddress: Address(body.Emitter), Payload: append([]byte{}, body.Payload...)}
	var rs []vh.RefSig
	for _, x := range ws {
		v.Signatures = append(v.Signatures, &Signature{Index: x.idx, Signature: SignatureData(x.sig)})
		rs = append(rs, vh.RefSig{Index: x.idx, Sig: x.sig})
	}
	{
		ref0 := vh.RefVerifySigs(digest, rs, use, false)
		got0, perr := callVerify(v, use)
		if perr != nil {
			return vh.V("C06/panic", "VerifySignatures panicked: %v", perr), o
		}
		if got0 != (ref0 == nil) {
			if got0 {
				return vh.V("C06/accepts-invalid", "VerifySignatures accepted although: %v (n=%d, %d sigs)", ref0, len(use), len(ws)), o
			}
			return vh.V("C06/rejects-valid", "VerifySignatures rejected a valid, ordered, in-set signature list (n=%d, %d sigs)", len(use), len(ws)), o
		}
		_ = v.SigningMsg()
	}
	v.Timestamp, v.Nonce, v.Sequence, v.ConsistencyLevel = time.Unix(int64(verifyBody.Timestamp), 0), verifyBody.Nonce, verifyBody.Sequence, verifyBody.CL
	v.EmitterChain, v.TargetChain, v.EmitterAddress, v.Payload = ChainID(verifyBody.EmitterChain), ChainID(verifyBody.TargetChain), Address(verifyBody.Emitter), verifyBody.Payload
	refErr := vh.RefVerifySigs(vh.RefDigest(vh.RefBody(verifyBody)), rs, use, false)
	got, perr := callVerify(v, use)
	if perr != nil {
		return vh.V("C06/panic", "VerifySignatures panicked: %v", perr), o
	}
	if refErr == nil {
		o.Labels = append(o.Labels, "expect-accept")
	} else {
		o.Labels = append(o.Labels, "expect-reject")
	}
	if got && refErr != nil {
		return vh.V("C06/accepts-invalid", "VerifySignatures accepted although: %v (n=%d, %d sigs)", refErr, len(use), len(ws)), o
	}
	if !got && refErr == nil {
		return vh.V("C06/rejects-valid", "VerifySignatures rejected a valid, ordered, in-set signature list (n=%d, %d sigs)", len(use), len(ws)), o
	}
	return nil, o
}

func callVerify(v *VAA, list []common.Address) (ok bool, err error) {
	defer func() {
		if r := recover(); r != nil {
			err = fmt.Errorf("%v", r)
		}
	}()
	return v.VerifySignatures(list), nil
}

func TestVerif_C06_Verify(t *testing.T) {
	vh.Check(t, vh.Prop[c06Case]{ID: "C06", Gen: genC06, Run: runC06})
}
