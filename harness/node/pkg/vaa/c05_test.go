//go:build verif

package vaa

import (
	"bytes"
	"encoding/hex"
	"fmt"
	"testing"
	"time"

	vh "github.com/alephium/wormhole-fork/node/zzverif"
	"pgregory.net/rapid"
)

// ---------------------------------------------------------------- shared value case

type sigCase struct {
	Index uint8  `json:"i"`
	Seed  uint64 `json:"s"`
}

type vaaCase struct {
	Version uint8       `json:"version"`
	GSIndex uint32      `json:"gs"`
	Sigs    []sigCase   `json:"sigs"`
	Body    vh.BodyCase `json:"body"`
	Nanos   int64       `json:"nanos"`
}

func (c vaaCase) refSigs() []vh.RefSig {
	out := make([]vh.RefSig, len(c.Sigs))
	for i, s := range c.Sigs {
		out[i].Index = s.Index
		copy(out[i].Sig[:], vh.Expand(s.Seed, 65))
	}
	return out
}

func (c vaaCase) value() *VAA {
	b := c.Body.Body()
	v := &VAA{
		Version:          c.Version,
		GuardianSetIndex: c.GSIndex,
		Timestamp:        time.Unix(int64(b.Timestamp), c.Nanos),
		Nonce:            b.Nonce,
		Sequence:         b.Sequence,
		ConsistencyLevel: b.CL,
		EmitterChain:     ChainID(b.EmitterChain),
		TargetChain:      ChainID(b.TargetChain),
		EmitterAddress:   Address(b.Emitter),
		Payload:          b.Payload,
	}
	for _, s := range c.refSigs() {
		v.Signatures = append(v.Signatures, &Signature{Index: s.Index, Signature: SignatureData(s.Sig)})
	}
	return v
}

func genSigs(t *rapid.T, max int) []sigCase {
	n := rapid.OneOf(rapid.IntRange(0, 4), rapid.IntRange(0, max), rapid.SampledFrom([]int{0, 1, 13, 19, 254, 255})).Draw(t, "nsigs")
	if n > max {
		n = max
	}
	out := make([]sigCase, n)
	base := rapid.Uint64Range(0, 1<<16).Draw(t, "sigseed")
	for i := range out {
		out[i] = sigCase{Index: uint8(i), Seed: base + uint64(i)}
	}
	if n > 0 && rapid.Bool().Draw(t, "oddidx") {
		out[rapid.IntRange(0, n-1).Draw(t, "which")].Index = rapid.Uint8().Draw(t, "idx")
	}
	return out
}

func genVAACase(t *rapid.T, minP, maxP int) vaaCase {
	return vaaCase{
		Version: 1,
		GSIndex: vh.U32Edge().Draw(t, "gs"),
		Sigs:    genSigs(t, 255),
		Body:    vh.GenBody(t, "b", minP, maxP, 64, 999, 1000, 1001, 2000, 3000, 4096),
		Nanos:   0,
	}
}

func sameVAA(a, b *VAA) error {
	if a.Version != b.Version {
		return fmt.Errorf("version %d != %d", a.Version, b.Version)
	}
	if a.GuardianSetIndex != b.GuardianSetIndex {
		return fmt.Errorf("set index %d != %d", a.GuardianSetIndex, b.GuardianSetIndex)
	}
	if len(a.Signatures) != len(b.Signatures) {
		return fmt.Errorf("signature count %d != %d", len(a.Signatures), len(b.Signatures))
	}
	for i := range a.Signatures {
		if a.Signatures[i] == nil || b.Signatures[i] == nil {
			return fmt.Errorf("nil signature %d", i)
		}
		if *a.Signatures[i] != *b.Signatures[i] {
			return fmt.Errorf("signature %d differs", i)
		}
	}
	if a.Timestamp.Unix() != b.Timestamp.Unix() || b.Timestamp.Nanosecond() != a.Timestamp.Nanosecond() {
		return fmt.Errorf("timestamp %v != %v", a.Timestamp, b.Timestamp)
	}
	if a.Nonce != b.Nonce || a.Sequence != b.Sequence || a.ConsistencyLevel != b.ConsistencyLevel ||
		a.EmitterChain != b.EmitterChain || a.TargetChain != b.TargetChain || a.EmitterAddress != b.EmitterAddress {
		return fmt.Errorf("body scalar fields differ: %+v vs %+v", a, b)
	}
	if !bytes.Equal(a.Payload, b.Payload) {
		return fmt.Errorf("payload differs: len %d vs %d", len(a.Payload), len(b.Payload))
	}
	return nil
}

// ---------------------------------------------------------------- C05 A: values round-trip

func runC05Value(c vaaCase) (*vh.Violation, vh.Outcome) {
	o := vh.Outcome{NonTrivial: c.Body.PLen > 64}
	if c.Body.PLen > 1000 {
		o.Labels = append(o.Labels, "payload>1000")
	}
	if len(c.Sigs) >= 20 {
		o.Labels = append(o.Labels, "sigs>=20")
	}
	v := c.value()
	wire, err := v.Marshal()
	if err != nil {
		return vh.V("C05/marshal-error", "Marshal failed: %v", err), o
	}
	ref := vh.RefMarshal(c.Version, c.GSIndex, c.refSigs(), vh.RefBody(c.Body.Body()))
	if !bytes.Equal(wire, ref) {
		return vh.V("C05/encoding-differs-from-reference", "Marshal output differs from the reference wire form (len %d vs %d)", len(wire), len(ref)), o
	}
	got, err := Unmarshal(wire)
	if err != nil {
		return vh.V("C05/valid-encoding-rejected", "Unmarshal(Marshal(v)) failed: %v", err), o
	}
	if got == nil {
		return vh.V("C05/nil-without-error", "Unmarshal returned nil,nil"), o
	}
	if err := sameVAA(v, got); err != nil {
		return vh.V("C05/roundtrip-value-differs", "decoded VAA differs: %v", err), o
	}
	if got.SigningMsg() != v.SigningMsg() {
		return vh.V("C05/roundtrip-digest-differs", "digest changed over the round trip"), o
	}
	return nil, o
}

func TestVerif_C05_Values(t *testing.T) {
	vh.Check(t, vh.Prop[vaaCase]{ID: "C05", Gen: func(t *rapid.T) vaaCase { return genVAACase(t, 1, 5000) }, Run: runC05Value})
}

// ---------------------------------------------------------------- C05 B: byte strings

type mutation struct {
	Kind string `json:"k"`
	Pos  int    `json:"p"`
	Val  int    `json:"v"`
}

type bytesCase struct {
	Base vaaCase    `json:"base"`
	Raw  bool       `json:"raw"` // start from raw generated bytes instead of a valid encoding
	RawN int        `json:"rawn"`
	RawS uint64     `json:"raws"`
	Muts []mutation `json:"muts"`
	// RawHex, if set, is the input verbatim (a crasher found by the native fuzz target)
	RawHex string `json:"rawhex,omitempty"`
}

func (c bytesCase) bytes() []byte {
	if c.RawHex != "" {
		b, _ := hex.DecodeString(c.RawHex)
		return b
	}
	var b []byte
	if c.Raw {
		b = vh.Expand(c.RawS, c.RawN)
		if len(b) > 0 && c.RawS%2 == 0 {
			b[0] = 1
		}
	} else {
		b = vh.RefMarshal(c.Base.Version, c.Base.GSIndex, c.Base.refSigs(), vh.RefBody(c.Base.Body.Body()))
	}
	nsig := len(c.Base.Sigs)
	bodyOff := 6 + 66*nsig
	// field boundaries of a valid encoding, used as anchors for truncation
	bounds := []int{0, 1, 5, 6, bodyOff, bodyOff + 4, bodyOff + 8, bodyOff + 10, bodyOff + 12, bodyOff + 44, bodyOff + 52, bodyOff + 53, len(b)}
	for i := 0; i < nsig && i < 3; i++ {
		bounds = append(bounds, 6+66*i+1, 6+66*(i+1))
	}
	for _, m := range c.Muts {
		switch m.Kind {
		case "truncAt": // truncate at a field boundary +/- 1
			p := bounds[abs(m.Pos)%len(bounds)] + (m.Val%3 - 1)
			if p >= 0 && p <= len(b) {
				b = b[:p]
			}
		case "trunc":
			if len(b) > 0 {
				b = b[:abs(m.Pos)%(len(b)+1)]
			}
		case "extend":
			b = append(b, vh.Expand(uint64(m.Val), 1+abs(m.Pos)%2000)...)
		case "setNSig":
			if len(b) > 5 {
				b[5] = byte(m.Val)
			}
		case "setVersion":
			if len(b) > 0 {
				b[0] = byte(m.Val)
			}
		case "flip":
			if len(b) > 0 {
				b[abs(m.Pos)%len(b)] ^= byte(1 << (uint(m.Val) % 8))
			}
		case "dropSig": // remove one whole signature without fixing the count
			if nsig > 0 && len(b) >= 6+66 {
				b = append(append([]byte{}, b[:6]...), b[6+66:]...)
			}
		case "splice": // duplicate a slice of the buffer into the middle
			if len(b) > 2 {
				p := abs(m.Pos) % len(b)
				q := abs(m.Val) % len(b)
				if p > q {
					p, q = q, p
				}
				nb := append([]byte{}, b[:q]...)
				nb = append(nb, b[p:q]...)
				b = append(nb, b[q:]...)
			}
		}
	}
	return b
}

func abs(x int) int {
	if x < 0 {
		if x == -x {
			return 0
		}
		return -x
	}
	return x
}

var mutKinds = []string{"truncAt", "truncAt", "trunc", "extend", "setNSig", "setVersion", "flip", "dropSig", "splice"}

func genBytesCase(t *rapid.T) bytesCase {
	c := bytesCase{}
	if rapid.IntRange(0, 9).Draw(t, "rawsel") == 0 {
		c.Raw = true
		c.RawN = rapid.OneOf(rapid.IntRange(0, 130), rapid.IntRange(0, 3000)).Draw(t, "rawn")
		c.RawS = rapid.Uint64Range(0, 1<<16).Draw(t, "raws")
	}
	c.Base = vaaCase{Version: 1, GSIndex: vh.U32Edge().Draw(t, "gs"), Sigs: genSigs(t, 20),
		Body: vh.GenBody(t, "b", 1, 2500, 64, 999, 1000, 1001, 2000)}
	n := rapid.IntRange(0, 3).Draw(t, "nmut")
	for i := 0; i < n; i++ {
		c.Muts = append(c.Muts, mutation{
			Kind: rapid.SampledFrom(mutKinds).Draw(t, "kind"),
			Pos:  rapid.IntRange(0, 1<<16).Draw(t, "pos"),
			Val:  rapid.IntRange(0, 1<<16).Draw(t, "val"),
		})
	}
	return c
}

// judgeBytes is the oracle for arbitrary input bytes; it is shared with the native fuzz target.
func judgeBytes(in []byte) *vh.Violation {
	input := append([]byte{}, in...)
	v, err := Unmarshal(in)
	if !bytes.Equal(in, input) {
		return vh.V("C05/decoder-mutates-input", "Unmarshal modified its input")
	}
	ref, rerr := vh.RefParse(input)
	if err != nil {
		if v != nil {
			return vh.V("C05/partial-result-with-error", "Unmarshal returned a non-nil VAA together with error %v", err)
		}
		if rerr == nil {
			return vh.V("C05/valid-encoding-rejected", "decoder rejected a well-formed encoding (%d bytes, %d sigs, payload %d): %v", len(input), len(ref.Sigs), len(ref.Body.Payload), err)
		}
		return nil
	}
	if v == nil {
		return vh.V("C05/nil-without-error", "Unmarshal returned nil,nil")
	}
	out, merr := v.Marshal()
	if merr != nil {
		return vh.V("C05/marshal-error", "Marshal of an accepted VAA failed: %v", merr)
	}
	if !bytes.Equal(out, input) {
		return vh.V("C05/accepted-input-not-reencoded", "decoder accepted %d bytes that re-encode to %d different bytes (payload kept %d)", len(input), len(out), len(v.Payload))
	}
	if rerr != nil {
		return vh.V("C05/accepted-malformed", "decoder accepted bytes the reference parser rejects: %v", rerr)
	}
	if v.GuardianSetIndex != ref.GSIndex || len(v.Signatures) != len(ref.Sigs) || uint32(v.Timestamp.Unix()) != ref.Body.Timestamp ||
		v.Nonce != ref.Body.Nonce || uint16(v.EmitterChain) != ref.Body.EmitterChain || uint16(v.TargetChain) != ref.Body.TargetChain ||
		[32]byte(v.EmitterAddress) != ref.Body.Emitter || v.Sequence != ref.Body.Sequence || v.ConsistencyLevel != ref.Body.CL ||
		!bytes.Equal(v.Payload, ref.Body.Payload) {
		return vh.V("C05/decoded-fields-differ-from-reference", "decoded fields differ from the reference parser")
	}
	if v.Timestamp.Nanosecond() != 0 {
		return vh.V("C05/decoded-fields-differ-from-reference", "decoded timestamp has a sub-second part")
	}
	if [32]byte(v.SigningMsg()) != vh.RefDigest(ref.BodyBytes) {
		return vh.V("C05/decoded-digest-differs", "digest of decoded VAA differs from the reference digest")
	}
	// the decoded value owns its bytes: the caller's buffer may be reused for the next message
	for i := range in {
		in[i] ^= 0x5a
	}
	out2, _ := v.Marshal()
	for i := range in {
		in[i] ^= 0x5a
	}
	if !bytes.Equal(out2, input) || [32]byte(v.SigningMsg()) != vh.RefDigest(ref.BodyBytes) {
		return vh.V("C05/decoded-vaa-aliases-input", "after the input buffer was overwritten, the decoded VAA re-encodes to other bytes / has another digest")
	}
	return nil
}

func runC05Bytes(c bytesCase) (*vh.Violation, vh.Outcome) {
	in := c.bytes()
	o := vh.Outcome{}
	nsig := len(c.Base.Sigs)
	for _, m := range c.Muts {
		o.Labels = append(o.Labels, "mut:"+m.Kind)
	}
	if len(c.Muts) == 0 {
		o.Labels = append(o.Labels, "unmutated")
	}
	if c.Raw {
		o.Labels = append(o.Labels, "raw")
	}
	_, rerr := vh.RefParse(in)
	if rerr == nil {
		o.Labels = append(o.Labels, "wellformed")
	} else {
		o.Labels = append(o.Labels, "malformed")
	}
	// non-trivial: a mutation was applied and the input still reaches into/past the signature block,
	// or the payload exceeds 64 bytes
	o.NonTrivial = (len(c.Muts) > 0 && nsig > 0 && len(in) > 6) || (rerr == nil && len(in) > 6+66*nsig+53+64)
	return judgeBytes(in), o
}

func TestVerif_C05_Bytes(t *testing.T) {
	vh.Check(t, vh.Prop[bytesCase]{ID: "C05", Gen: genBytesCase, Run: runC05Bytes})
}
