//go:build verif

package publicrpc

import (
	"bytes"
	"context"
	"encoding/hex"
	"fmt"
	"os"
	"path/filepath"
	"sort"
	"sync"
	"testing"
	"time"

	"github.com/alephium/wormhole-fork/node/pkg/common"
	"github.com/alephium/wormhole-fork/node/pkg/db"
	publicrpcv1 "github.com/alephium/wormhole-fork/node/pkg/proto/publicrpc/v1"
	"github.com/alephium/wormhole-fork/node/pkg/vaa"
	vh "github.com/alephium/wormhole-fork/node/zzverif"
	"go.uber.org/zap"
	"google.golang.org/grpc/codes"
	"google.golang.org/grpc/status"
	"pgregory.net/rapid"
)

// C12: the store and the public RPC against a Go map keyed by (emitter chain, emitter
// address, target chain, sequence), over an id alphabet whose decimal renderings are
// prefixes of each other.

var c12Chains = []uint16{0, 1, 2, 4, 10, 11, 17, 25, 42, 255, 256, 10001, 65535}
var c12Seqs = []uint64{0, 1, 2, 3, 4, 5, 7, 10, 11, 12, 19, 20, 21, 25, 40, 100, 255, 1000, 1 << 32, 1<<64 - 1}

const c12GovChain = vaa.ChainID(1)

func c12Addr(sel int) vaa.Address {
	switch sel % 3 {
	case 0:
		return vaa.Address{31: 4} // the governance emitter
	case 1:
		return vaa.Address{31: 0x40}
	}
	var a vaa.Address
	for i := range a {
		a[i] = 0xab
	}
	return a
}

type c12Store struct {
	EC   int    `json:"ec"` // index into c12Chains
	Addr int    `json:"addr"`
	TC   int    `json:"tc"`
	Seq  int    `json:"seq"` // index into c12Seqs
	Var  uint64 `json:"var"` // signature set / payload variant (overwrites with different bytes)
}

type c12Query struct {
	EC   int   `json:"ec"`
	Addr int   `json:"addr"`
	TC   int   `json:"tc"`
	Seqs []int `json:"seqs"`
}

type c12Case struct {
	Stores  []c12Store `json:"stores"`
	Queries []c12Query `json:"queries"`
	Bulk    []c12Bulk  `json:"bulk,omitempty"`
}

// a long stream: sequences 0..N-1 of one emitter, every Hole-th one missing (0 = none). Streams of a busy emitter hold
// thousands of VAAs; scans walk them (and whatever follows them in key order) with the store's iterator.
type c12Bulk struct {
	EC   int `json:"ec"`
	Addr int `json:"addr"`
	TC   int `json:"tc"`
	N    int `json:"n"`
	Hole int `json:"hole"`
}

func (s c12Store) id() vaa.VAAID {
	return vaa.VAAID{EmitterChain: vaa.ChainID(c12Chains[s.EC%len(c12Chains)]), EmitterAddress: c12Addr(s.Addr), TargetChain: vaa.ChainID(c12Chains[s.TC%len(c12Chains)]), Sequence: c12Seqs[s.Seq%len(c12Seqs)]}
}

func (s c12Store) vaa() *vaa.VAA {
	id := s.id()
	// variants 0..2 share one body and differ in guardian-set index and signature list only (the same message signed
	// again, e.g. a peer's copy replacing the node's own); 3..5 likewise with another body
	bv := s.Var / 3
	v := &vaa.VAA{Version: 1, GuardianSetIndex: uint32(s.Var % 3), Timestamp: time.Unix(int64(1000+bv), 0), Nonce: uint32(bv), Sequence: id.Sequence,
		ConsistencyLevel: 1, EmitterChain: id.EmitterChain, TargetChain: id.TargetChain, EmitterAddress: id.EmitterAddress, Payload: vh.Expand(bv, 1+int(bv*17%50))}
	nsig := 1 + int(s.Var%3)
	for i := 0; i < nsig; i++ {
		v.AddSignature(vh.Key(i), uint8(i))
	}
	if s.Var%3 == 2 && nsig >= 2 {
		// the store keeps what it is given: a VAA whose signatures are not in ascending guardian order comes back as it went in
		v.Signatures[0], v.Signatures[nsig-1] = v.Signatures[nsig-1], v.Signatures[0]
	}
	return v
}

var (
	c12Once sync.Once
	c12DB   *db.Database
)

func c12Open() *db.Database {
	c12Once.Do(func() {
		dir := os.Getenv("VERIF_SCRATCH")
		if dir == "" {
			dir = os.TempDir()
		}
		dir = filepath.Join(dir, fmt.Sprintf("c12db-%d", os.Getpid()))
		_ = os.RemoveAll(dir)
		d, err := db.Open(dir)
		if err != nil {
			panic(err)
		}
		c12DB = d
	})
	return c12DB
}

func streamKey(id vaa.VAAID) string {
	return fmt.Sprintf("%d/%s/%d", id.EmitterChain, id.EmitterAddress, id.TargetChain)
}

func prefixRelated(a, b uint16) bool {
	sa, sb := fmt.Sprint(a), fmt.Sprint(b)
	return a != b && (len(sa) < len(sb) && sb[:len(sa)] == sa || len(sb) < len(sa) && sa[:len(sb)] == sb)
}

func runC12(c c12Case) (*vh.Violation, vh.Outcome) {
	d := c12Open()
	out := vh.Outcome{}
	defer func() {
		for _, s := range c.Stores {
			_ = d.VerifDelete(s.id())
		}
	}()
	srv := NewPublicrpcServer(zap.NewNop(), d, common.NewGuardianSetState(nil), c12GovChain, c12Addr(0))
	ctx := context.Background()

	model := map[string][]byte{}
	ids := map[string]vaa.VAAID{}
	// every identifier is asked for once while nothing is stored under it (a node is asked for VAAs it does not have
	// yet all the time): what is stored afterwards must be found all the same
	for _, s := range c.Stores {
		if _, err := d.GetSignedVAABytes(s.id()); err != db.ErrVAANotFound {
			return vh.V("C12/absent-id-not-notfound", "GetSignedVAABytes(%s) before anything was stored under it: err=%v", idStr(s.id()), err), out
		}
	}
	for _, s := range c.Stores {
		v := s.vaa()
		b, _ := v.Marshal()
		if _, had := model[idStr(s.id())]; had {
			out.Labels = append(out.Labels, "overwrite")
		}
		if err := d.StoreSignedVAA(v); err != nil {
			return vh.V("C12/store-failed", "%v", err), out
		}
		model[idStr(s.id())] = b
		ids[idStr(s.id())] = s.id()
	}
	bulk := map[string]bool{}
	for _, bk := range c.Bulk {
		for q := 0; q < bk.N; q++ {
			if bk.Hole > 0 && q%bk.Hole == bk.Hole-1 {
				continue
			}
			id := vaa.VAAID{EmitterChain: vaa.ChainID(c12Chains[bk.EC%len(c12Chains)]), EmitterAddress: c12Addr(bk.Addr), TargetChain: vaa.ChainID(c12Chains[bk.TC%len(c12Chains)]), Sequence: uint64(q)}
			if _, had := model[idStr(id)]; had {
				continue
			}
			v := &vaa.VAA{Version: 1, GuardianSetIndex: 1, Timestamp: time.Unix(int64(2000+q), 0), Nonce: uint32(q), Sequence: id.Sequence, ConsistencyLevel: 1,
				EmitterChain: id.EmitterChain, TargetChain: id.TargetChain, EmitterAddress: id.EmitterAddress, Payload: vh.Expand(uint64(q), 1+q%40)}
			v.AddSignature(vh.Key(0), 0)
			b, _ := v.Marshal()
			if err := d.StoreSignedVAA(v); err != nil {
				return vh.V("C12/store-failed", "%v", err), out
			}
			model[idStr(id)] = b
			ids[idStr(id)] = id
			bulk[idStr(id)] = q%16 != 0
		}
		if bk.N > 100 {
			out.Labels = append(out.Labels, "stream-longer-than-100")
		}
	}
	defer func() {
		for k := range bulk {
			_ = d.VerifDelete(ids[k])
		}
	}()
	// streams present, and non-triviality: two streams whose target or emitter chain renderings are prefix related
	streams := map[string]vaa.VAAID{}
	for _, id := range ids {
		streams[streamKey(id)] = vaa.VAAID{EmitterChain: id.EmitterChain, EmitterAddress: id.EmitterAddress, TargetChain: id.TargetChain}
	}
	for _, a := range streams {
		for _, b := range streams {
			if a.EmitterAddress == b.EmitterAddress && (a.EmitterChain == b.EmitterChain && prefixRelated(uint16(a.TargetChain), uint16(b.TargetChain)) ||
				a.TargetChain == b.TargetChain && prefixRelated(uint16(a.EmitterChain), uint16(b.EmitterChain))) {
				out.NonTrivial = true
			}
		}
	}

	lookup := func(id vaa.VAAID) *vh.Violation {
		want, present := model[idStr(id)]
		got, err := d.GetSignedVAABytes(id)
		rr, rerr := srv.GetSignedVAA(ctx, &publicrpcv1.GetSignedVAARequest{MessageId: &publicrpcv1.MessageID{EmitterChain: publicrpcv1.ChainID(id.EmitterChain),
			EmitterAddress: hex.EncodeToString(id.EmitterAddress[:]), TargetChain: publicrpcv1.ChainID(id.TargetChain), Sequence: id.Sequence}})
		if present {
			if err != nil || !bytes.Equal(got, want) {
				return vh.V("C12/lookup-wrong-bytes", "GetSignedVAABytes(%s): err=%v, bytes equal=%v", idStr(id), err, bytes.Equal(got, want))
			}
			if rerr != nil || rr == nil || !bytes.Equal(rr.VaaBytes, want) {
				return vh.V("C12/rpc-lookup-wrong-bytes", "GetSignedVAA(%s): err=%v", idStr(id), rerr)
			}
		} else {
			if err != db.ErrVAANotFound {
				return vh.V("C12/absent-id-not-notfound", "GetSignedVAABytes(%s) for an absent id: err=%v, %d bytes", idStr(id), err, len(got))
			}
			if status.Code(rerr) != codes.NotFound {
				return vh.V("C12/rpc-absent-id-not-notfound", "GetSignedVAA(%s) for an absent id: err=%v", idStr(id), rerr)
			}
		}
		return nil
	}
	// every stored id, and near misses of it
	keys := make([]string, 0, len(ids))
	for k := range ids {
		keys = append(keys, k)
	}
	sort.Strings(keys)
	for _, k := range keys {
		id := ids[k]
		if bulk[k] {
			continue // of a long stream every 16th entry is looked up
		}
		if v := lookup(id); v != nil {
			return v, out
		}
		for _, near := range []vaa.VAAID{
			{EmitterChain: id.EmitterChain, EmitterAddress: id.EmitterAddress, TargetChain: id.TargetChain, Sequence: id.Sequence*10 + 1},
			{EmitterChain: id.EmitterChain, EmitterAddress: id.EmitterAddress, TargetChain: id.TargetChain*10 + 5, Sequence: id.Sequence},
			{EmitterChain: id.EmitterChain*10 + 1, EmitterAddress: id.EmitterAddress, TargetChain: id.TargetChain, Sequence: id.Sequence},
			{EmitterChain: id.TargetChain, EmitterAddress: id.EmitterAddress, TargetChain: id.EmitterChain, Sequence: id.Sequence},
			{EmitterChain: id.EmitterChain, EmitterAddress: c12Addr(1), TargetChain: id.TargetChain, Sequence: id.Sequence},
		} {
			if v := lookup(near); v != nil {
				return v, out
			}
		}
	}

	gap := func(st vaa.VAAID) *vh.Violation {
		present := map[uint64]bool{}
		var last uint64
		for _, id := range ids {
			if streamKey(id) == streamKey(st) {
				present[id.Sequence] = true
				if id.Sequence > last {
					last = id.Sequence
				}
			}
		}
		if last > 5000 {
			return nil // the scan enumerates every sequence up to last: keep such streams out of gap queries
		}
		var wantMissing []uint64
		for i := uint64(0); i <= last; i++ {
			if !present[i] { // an empty stream reports sequence 0 as missing (range [0..last] with last = 0)
				wantMissing = append(wantMissing, i)
			}
		}
		missing, first, lastGot, err := d.FindEmitterSequenceGap(st)
		if err != nil {
			return vh.V("C12/gap-scan-error", "FindEmitterSequenceGap(%s): %v", streamKey(st), err)
		}
		sort.Slice(missing, func(i, j int) bool { return missing[i] < missing[j] })
		if first != 0 || lastGot != last || fmt.Sprint(missing) != fmt.Sprint(wantMissing) && !(len(missing) == 0 && len(wantMissing) == 0) {
			return vh.V("C12/gap-scan-mixes-streams", "FindEmitterSequenceGap(%s): got first=%d last=%d missing=%v, stream holds %v so want first=0 last=%d missing=%v",
				streamKey(st), first, lastGot, head(missing), sortedKeys(present), last, head(wantMissing))
		}
		return nil
	}
	batch := func(st vaa.VAAID, seqs []uint64) *vh.Violation {
		resp, err := srv.GetNonGovernanceVAABatch(ctx, &publicrpcv1.GetNonGovernanceVAABatchRequest{EmitterChain: publicrpcv1.ChainID(st.EmitterChain),
			EmitterAddress: hex.EncodeToString(st.EmitterAddress[:]), TargetChain: publicrpcv1.ChainID(st.TargetChain), Sequences: seqs})
		if len(seqs) > 20 {
			if status.Code(err) != codes.InvalidArgument {
				return vh.V("C12/batch-size-not-enforced", "batch of %d sequences: err=%v", len(seqs), err)
			}
			return nil
		}
		if err != nil {
			return vh.V("C12/batch-error", "%v", err)
		}
		var want []string
		for _, s := range seqs {
			id := vaa.VAAID{EmitterChain: st.EmitterChain, EmitterAddress: st.EmitterAddress, TargetChain: st.TargetChain, Sequence: s}
			if b, ok := model[idStr(id)]; ok {
				want = append(want, fmt.Sprintf("%d:%x", s, b))
			}
		}
		var got []string
		for _, e := range resp.Entries {
			got = append(got, fmt.Sprintf("%d:%x", e.Sequence, e.VaaBytes))
		}
		if fmt.Sprint(got) != fmt.Sprint(want) {
			return vh.V("C12/batch-wrong-entries", "GetNonGovernanceVAABatch(%s, %v) returned %d entries, the stream holds %d of the requested sequences (or bytes differ)", streamKey(st), seqs, len(got), len(want))
		}
		return nil
	}
	govBatch := func(seqs []uint64) *vh.Violation {
		resp, err := srv.GetGovernanceVAABatch(ctx, &publicrpcv1.GetGovernanceVAABatchRequest{Sequences: seqs})
		if len(seqs) > 20 {
			if status.Code(err) != codes.InvalidArgument {
				return vh.V("C12/batch-size-not-enforced", "governance batch of %d sequences: err=%v", len(seqs), err)
			}
			return nil
		}
		if err != nil {
			return vh.V("C12/gov-batch-error", "%v", err)
		}
		in := map[uint64]bool{}
		for _, s := range seqs {
			in[s] = true
		}
		var want []string
		for _, id := range ids {
			if id.EmitterChain == c12GovChain && id.EmitterAddress == c12Addr(0) && in[id.Sequence] {
				want = append(want, fmt.Sprintf("%d/%d:%x", id.TargetChain, id.Sequence, model[idStr(id)]))
			}
		}
		var got []string
		for _, e := range resp.Entries {
			got = append(got, fmt.Sprintf("%d/%d:%x", e.TargetChain, e.Sequence, e.VaaBytes))
		}
		sort.Strings(want)
		sort.Strings(got)
		if fmt.Sprint(got) != fmt.Sprint(want) {
			return vh.V("C12/gov-batch-wrong-entries", "GetGovernanceVAABatch(%v) returned %d entries, the governance stream holds %d matching ones (or they differ)", seqs, len(got), len(want))
		}
		return nil
	}

	// gap scan for every present stream and for the generated query streams
	skeys := make([]string, 0, len(streams))
	for k := range streams {
		skeys = append(skeys, k)
	}
	sort.Strings(skeys)
	for _, k := range skeys {
		if v := gap(streams[k]); v != nil {
			return v, out
		}
	}
	for _, q := range c.Queries {
		st := vaa.VAAID{EmitterChain: vaa.ChainID(c12Chains[q.EC%len(c12Chains)]), EmitterAddress: c12Addr(q.Addr), TargetChain: vaa.ChainID(c12Chains[q.TC%len(c12Chains)])}
		var seqs []uint64
		for _, s := range q.Seqs {
			seqs = append(seqs, c12Seqs[s%len(c12Seqs)])
		}
		if v := gap(st); v != nil {
			return v, out
		}
		if v := batch(st, seqs); v != nil {
			return v, out
		}
		if v := govBatch(seqs); v != nil {
			return v, out
		}
		for _, s := range seqs {
			if v := lookup(vaa.VAAID{EmitterChain: st.EmitterChain, EmitterAddress: st.EmitterAddress, TargetChain: st.TargetChain, Sequence: s}); v != nil {
				return v, out
			}
		}
	}
	return nil, out
}

func head(x []uint64) []uint64 {
	if len(x) > 12 {
		return x[:12]
	}
	return x
}

func sortedKeys(m map[uint64]bool) []uint64 {
	var out []uint64
	for k := range m {
		out = append(out, k)
	}
	sort.Slice(out, func(i, j int) bool { return out[i] < out[j] })
	return out
}

func genC12(t *rapid.T) c12Case {
	// a few "home" coordinates make collisions between prefix-related ids likely
	// index groups of c12Chains whose decimal renderings are prefix related: {2,25,255,256}, {1,10,11,17,10001}, {4,42}
	groups := [][]int{{2, 7, 9, 10}, {1, 4, 5, 6, 11}, {3, 8}, {0, 12, 2, 9}}
	pick := func(label string, max int) []int {
		if rapid.IntRange(0, 3).Draw(t, label+"grp") > 0 {
			g := rapid.SampledFrom(groups).Draw(t, label+"g")
			return rapid.SliceOfN(rapid.SampledFrom(g), 1, max).Draw(t, label)
		}
		return rapid.SliceOfN(rapid.IntRange(0, len(c12Chains)-1), 1, max).Draw(t, label)
	}
	homeEC := pick("homeec", 3)
	homeTC := pick("hometc", 4)
	st := rapid.Custom(func(t *rapid.T) c12Store {
		return c12Store{EC: rapid.SampledFrom(homeEC).Draw(t, "ec"), Addr: rapid.IntRange(0, 2).Draw(t, "addr"), TC: rapid.SampledFrom(homeTC).Draw(t, "tc"),
			Seq: rapid.OneOf(rapid.IntRange(0, 14), rapid.IntRange(0, len(c12Seqs)-1)).Draw(t, "seq"), Var: rapid.Uint64Range(0, 5).Draw(t, "var")}
	})
	q := rapid.Custom(func(t *rapid.T) c12Query {
		return c12Query{EC: rapid.OneOf(rapid.SampledFrom(homeEC), rapid.IntRange(0, len(c12Chains)-1)).Draw(t, "ec"), Addr: rapid.IntRange(0, 2).Draw(t, "addr"),
			TC:   rapid.OneOf(rapid.SampledFrom(homeTC), rapid.IntRange(0, len(c12Chains)-1)).Draw(t, "tc"),
			Seqs: rapid.SliceOfN(rapid.IntRange(0, len(c12Seqs)-1), 0, 22).Draw(t, "seqs")}
	})
	c := c12Case{Stores: rapid.SliceOfN(st, 1, 25).Draw(t, "stores"), Queries: rapid.SliceOfN(q, 0, 4).Draw(t, "queries")}
	if rapid.IntRange(0, 5).Draw(t, "bulk") == 0 {
		bk := rapid.Custom(func(t *rapid.T) c12Bulk {
			return c12Bulk{EC: rapid.SampledFrom(homeEC).Draw(t, "bec"), Addr: rapid.IntRange(0, 2).Draw(t, "baddr"), TC: rapid.SampledFrom(homeTC).Draw(t, "btc"),
				N: rapid.SampledFrom([]int{5, 99, 100, 101, 102, 150, 201, 260}).Draw(t, "bn"), Hole: rapid.SampledFrom([]int{0, 0, 7, 50}).Draw(t, "bhole")}
		})
		c.Bulk = rapid.SliceOfN(bk, 1, 2).Draw(t, "bulks")
	}
	return c
}

func TestVerif_C12_Store(t *testing.T) {
	vh.Check(t, vh.Prop[c12Case]{ID: "C12", Gen: genC12, Run: runC12})
}

func idStr(id vaa.VAAID) string { return id.ToString() }
