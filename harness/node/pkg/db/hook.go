//go:build verif

package db

import (
	"github.com/alephium/wormhole-fork/node/pkg/vaa"
	"github.com/dgraph-io/badger/v3"
)

// VerifDelete removes one stored VAA. Harness-only (overlaid at check time, never part of
// the repository): lets generated cases share one store without leaking state into each other.
func (d *Database) VerifDelete(id vaa.VAAID) error {
	return d.db.Update(func(txn *badger.Txn) error { return txn.Delete(id.Bytes()) })
}

// VerifDropAll empties the store.
func (d *Database) VerifDropAll() error { return d.db.DropAll() }
