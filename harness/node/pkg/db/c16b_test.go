//go:build verif

package db

import (
	"fmt"
	"os"
	"path/filepath"
	"sort"
	"strings"
	"testing"

	vh "github.com/alephium/wormhole-fork/node/zzverif"
)

// C16, crash point by construction: a SIGKILL between the creation of the next value-log file and its
// initialisation leaves a zero-length .vlog file behind (the real-time kill cycles hit this window only
// rarely). The store must reopen and still hold what was acknowledged before.
func TestVerif_C16_CrashDuringOpen(t *testing.T) {
	pl := vh.NewPlain(t, "C16")
	defer pl.Flush()
	base := os.Getenv("VERIF_SCRATCH")
	if base == "" {
		base = os.TempDir()
	}
	for n := 1; n <= 12; n++ {
		ext := ".vlog"
		if n > 4 {
			ext = ".mem" // the same window exists for the write-ahead log of the next memtable
		}
		if n > 8 {
			ext = "MANIFEST-REWRITE" // badger rewrites its manifest as create, write, sync, rename: a kill in between leaves this file behind (empty or torn)
		}
		dir, err := os.MkdirTemp(base, "c16b-")
		if err != nil {
			t.Fatal(err)
		}
		c := map[string]int{"stores_before_crash": n * 3, "reopen_cycles": n, "mem_file": map[bool]int{false: 0, true: 1}[ext == ".mem"]}
		d, err := Open(dir)
		if err != nil {
			t.Fatal(err)
		}
		want := map[string]string{}
		for i := 0; i < n*3; i++ {
			v := c16Write(uint64(n), 0, i, 40, i%3)
			if err := d.StoreSignedVAA(v); err != nil {
				t.Fatal(err)
			}
			b, _ := v.Marshal()
			want[VaaIDFromVAA(v).ToString()] = sha(b)
		}
		_ = d.Close()
		for k := 0; k < n; k++ { // a few clean reopen cycles first: each creates a further value log
			d, err = Open(dir)
			if err != nil {
				t.Fatal(err)
			}
			_ = d.Close()
		}
		// the next value-log / memtable file exists but was never initialised
		// (wherever the store keeps such files: they are looked for below the store directory, not only in it)
		var fids []string
		where := dir
		_ = filepath.Walk(dir, func(p string, info os.FileInfo, err error) error {
			if err == nil && !info.IsDir() && strings.HasSuffix(info.Name(), ext) {
				fids = append(fids, info.Name())
				where = filepath.Dir(p)
			}
			return nil
		})
		sort.Strings(fids)
		last := 0
		if len(fids) > 0 {
			fmt.Sscanf(fids[len(fids)-1], "%d", &last)
		}
		name := fmt.Sprintf("%06d.vlog", last+1)
		var content []byte
		switch {
		case ext == ".mem":
			name = fmt.Sprintf("%05d.mem", last+1)
		case ext == "MANIFEST-REWRITE":
			name, where = ext, dir
			if _, err := os.Stat(filepath.Join(dir, "MANIFEST")); err != nil {
				_ = filepath.Walk(dir, func(p string, info os.FileInfo, err error) error {
					if err == nil && info.Name() == "MANIFEST" {
						where = filepath.Dir(p)
					}
					return nil
				})
			}
			if n%2 == 0 {
				content = []byte{0x42, 0x67, 0x64, 0x72, 0, 0, 0, 8} // torn: the first bytes of a manifest and nothing else
			}
		}
		if err := os.WriteFile(filepath.Join(where, name), content, 0o666); err != nil {
			t.Fatal(err)
		}
		pl.Record(c, vh.Outcome{NonTrivial: true, Labels: []string{"leftover-" + ext + "-after-kill"}})
		d, err = Open(dir)
		if err != nil {
			os.RemoveAll(dir)
			pl.Violate(vh.V("C16/store-does-not-reopen-after-kill-during-open", "a kill between creating and initialising the next %s file (zero-length %s) makes the store refuse to open: %v", ext, name, firstLine(err.Error())), c)
			continue
		}
		for _, v := range []int{0, 1, 2} {
			_ = v
		}
		for i := 0; i < n*3; i++ {
			v := c16Write(uint64(n), 0, i, 40, i%3)
			id := VaaIDFromVAA(v)
			b, err := d.GetSignedVAABytes(*id)
			if err != nil || sha(b) != want[id.ToString()] {
				_ = d.Close()
				os.RemoveAll(dir)
				pl.Violate(vh.V("C16/acknowledged-write-lost", "after reopening past a zero-length value log, %s is not intact: %v", id.ToString(), err), c)
				break
			}
		}
		_ = d.Close()
		os.RemoveAll(dir)
	}
}

func firstLine(s string) string {
	if i := strings.Index(s, "\n"); i >= 0 {
		return s[:i]
	}
	return s
}

// C16, kills in quick succession: the first incarnation acknowledges a few MB and is killed; the second one is
// killed while it is still recovering the first one's log (right after its first store, or after a short delay
// from process start); only then is the store examined. Between the kills nobody closes the store gracefully.
func TestVerif_C16_BackToBackKills(t *testing.T) {
	pl := vh.NewPlain(t, "C16")
	defer pl.Flush()
	var cases []c16Case
	var rc c16Case
	if pl.ReplayCase(&rc) {
		cases = []c16Case{rc}
	} else {
		seconds := []c16Cycle{{N: 1, Kill: "self", K: 0}, {N: 1, Kill: "parent", K: 0}, {N: 3, Kill: "delay", Delay: 60}, {N: 3, Kill: "delay", Delay: 120}}
		sizes := []int{60}
		if vh.Thorough() {
			sizes = []int{30, 60, 150}
			seconds = append(seconds, c16Cycle{N: 3, Kill: "delay", Delay: 30}, c16Cycle{N: 3, Kill: "delay", Delay: 90}, c16Cycle{N: 3, Kill: "delay", Delay: 200}, c16Cycle{N: 2, Kill: "self", K: 1})
		}
		for _, n := range sizes {
			for si, sc := range seconds {
				first := c16Cycle{N: n, Kill: "self", K: n - 1, Big: 3, NoVerify: true}
				cases = append(cases, c16Case{Seed: uint64(100 + si), IDSpace: 40, Cycles: []c16Cycle{first, sc}})
				// three in a row: the second kill also goes unexamined
				sc2 := sc
				sc2.NoVerify = true
				cases = append(cases, c16Case{Seed: uint64(200 + si), IDSpace: 40, Cycles: []c16Cycle{first, sc2, {N: 1, Kill: "self", K: 0}}})
			}
		}
	}
	for _, c := range cases {
		v, o := runC16(c)
		o.NonTrivial = true
		pl.Record(c, o)
		if v != nil {
			pl.Violate(v, c)
		}
	}
}

// C16, many cycles on one directory: thirty incarnations in a row each acknowledge a few VAAs and are killed; nobody
// ever closes the store gracefully. The store must keep reopening (within a deadline: a reopen that hangs is the
// same as one that fails) and every acknowledged VAA must be there at the end.
func TestVerif_C16_ManyCycles(t *testing.T) {
	pl := vh.NewPlain(t, "C16")
	defer pl.Flush()
	cycles := 30
	if vh.Thorough() {
		cycles = 60
	}
	c := c16Case{Seed: 4242, IDSpace: 40}
	for i := 0; i < cycles; i++ {
		c.Cycles = append(c.Cycles, c16Cycle{N: 3, Kill: "self", K: 2, NoVerify: i != cycles-1})
	}
	var rc c16Case
	if pl.ReplayCase(&rc) {
		c = rc
	}
	v, o := runC16(c)
	o.NonTrivial = true
	pl.Record(map[string]int{"cycles": len(c.Cycles), "writes_per_cycle": 3}, o)
	if v != nil {
		pl.Violate(v, c)
	}
}
