//go:build verif

package db

import (
	"bufio"
	"crypto/sha256"
	"encoding/hex"
	"fmt"
	"os"
	"os/exec"
	"path/filepath"
	"runtime"
	"strconv"
	"strings"
	"sync"
	"sync/atomic"
	"syscall"
	"testing"
	"time"

	"github.com/alephium/wormhole-fork/node/pkg/vaa"
	vh "github.com/alephium/wormhole-fork/node/zzverif"
	"pgregory.net/rapid"
)

// C16: a child process stores a generated stream of VAAs and acknowledges each successful
// StoreSignedVAA on stdout; it is SIGKILLed at a generated point; the parent reopens the
// directory and checks every acknowledged VAA. Repeated for several cycles on one directory.

type c16Cycle struct {
	N     int    `json:"n"`    // writes attempted in this cycle
	Kill  string `json:"kill"` // "self": child kills itself right after ack K; "parent": parent kills when it has read ack K; "delay": parent kills after DelayMs; "none": child exits normally without Close
	K     int    `json:"k"`
	Delay int    `json:"delay"` // ms
	Big   int    `json:"big"`   // payload size class of the K-th write (0 small, 1 ~20 KB, 2 ~100 KB; 3: all writes of the cycle ~100 KB)
	// NoVerify: the parent does not reopen the store after this kill (its reopen ends with a graceful Close, which
	// flushes everything): the next child then opens a directory that was killed twice in a row, possibly while
	// the previous incarnation was still recovering
	NoVerify bool `json:"noverify,omitempty"`
}

type c16Case struct {
	Seed    uint64     `json:"seed"`
	IDSpace int        `json:"idspace"`
	Cycles  []c16Cycle `json:"cycles"`
}

func c16Write(seed uint64, cycle, i, idspace int, big int) *vaa.VAA {
	r := vh.Expand(seed*1000003+uint64(cycle)*1009+uint64(i), 16)
	seq := uint64(r[0])%uint64(idspace) + 1
	size := 1 + int(r[1])*3 + int(r[2])%7
	switch big {
	case 1:
		size = 20000 + int(r[3])
	case 2:
		size = 100000 + int(r[3])
	}
	v := &vaa.VAA{Version: 1, GuardianSetIndex: uint32(cycle), Timestamp: time.Unix(int64(1000+i), 0), Nonce: uint32(i), Sequence: seq, ConsistencyLevel: 1,
		EmitterChain: 2, TargetChain: vaa.ChainID(r[4] % 2), EmitterAddress: vaa.Address{31: 7}, Payload: vh.Expand(seed+uint64(cycle)*7919+uint64(i), size)}
	v.AddSignature(vh.Key(0), 0)
	return v
}

const c16OpenDeadline = 25 * time.Second

func within(d time.Duration, f func()) bool {
	done := make(chan struct{})
	go func() { f(); close(done) }()
	select {
	case <-done:
		return true
	case <-time.After(d):
		return false
	}
}

func sha(b []byte) string { h := sha256.Sum256(b); return hex.EncodeToString(h[:8]) }

// the child side
func TestVerif_C16_Child(t *testing.T) {
	if os.Getenv("VERIF_C16_CHILD") != "1" {
		t.Skip("helper process")
	}
	dir := os.Getenv("VERIF_C16_DIR")
	seed, _ := strconv.ParseUint(os.Getenv("VERIF_C16_SEED"), 10, 64)
	cycle, _ := strconv.Atoi(os.Getenv("VERIF_C16_CYCLE"))
	n, _ := strconv.Atoi(os.Getenv("VERIF_C16_N"))
	k, _ := strconv.Atoi(os.Getenv("VERIF_C16_K"))
	idspace, _ := strconv.Atoi(os.Getenv("VERIF_C16_IDSPACE"))
	big, _ := strconv.Atoi(os.Getenv("VERIF_C16_BIG"))
	self := os.Getenv("VERIF_C16_KILL") == "self"
	d, err := Open(dir)
	if err != nil {
		fmt.Printf("OPENFAIL %v\n", err)
		os.Exit(3)
	}
	fmt.Println("OPENED")
	// A reader beside the writer: while an identifier whose store has been acknowledged is stored again (a peer's copy,
	// a re-observation), lookups of it keep returning one of the copies stored under it - never "not found".
	var rmu sync.Mutex
	acked := map[string]map[string]bool{} // id -> shas stored (or being stored) under it, once the first store was acknowledged
	var cur atomic.Pointer[vaa.VAAID]
	go func() {
		for {
			id := cur.Load()
			if id == nil {
				runtime.Gosched()
				continue
			}
			rb, err := d.GetSignedVAABytes(*id)
			rmu.Lock()
			ok := acked[id.ToString()]
			rmu.Unlock()
			if cur.Load() != id {
				continue // the store finished meanwhile: the set of copies may have moved on
			}
			if err != nil {
				fmt.Printf("RBERR -1 %s concurrent-lookup-during-a-second-store:%s\n", id.ToString(), strings.ReplaceAll(err.Error(), "\n", " "))
				time.Sleep(time.Millisecond)
			} else if !ok[sha(rb)] {
				fmt.Printf("RBERR -1 %s concurrent-lookup-returned-sha-%s\n", id.ToString(), sha(rb))
				time.Sleep(time.Millisecond)
			}
		}
	}()
	for i := 0; i < n; i++ {
		b := 0
		if i == k {
			b = big
		}
		if big == 3 { // every write of this cycle is large: recovery of this cycle's log takes a while
			b = 2
		}
		v := c16Write(seed, cycle, i, idspace, b)
		bs, _ := v.Marshal()
		id := VaaIDFromVAA(v).ToString()
		// a lookup before the store (it may miss) and one right after the acknowledgement, on the same open store
		_, _ = d.GetSignedVAABytes(*VaaIDFromVAA(v))
		fmt.Printf("TRY %d %s %s\n", i, id, sha(bs))
		rmu.Lock()
		if acked[id] != nil {
			acked[id][sha(bs)] = true
			cur.Store(VaaIDFromVAA(v))
		}
		rmu.Unlock()
		err := d.StoreSignedVAA(v)
		cur.Store(nil)
		if err != nil {
			fmt.Printf("ERR %d %v\n", i, err)
			continue
		}
		rmu.Lock()
		if acked[id] == nil {
			acked[id] = map[string]bool{sha(bs): true}
		}
		rmu.Unlock()
		fmt.Printf("ACK %d %s %s\n", i, id, sha(bs))
		if rb, err := d.GetSignedVAABytes(*VaaIDFromVAA(v)); err != nil {
			fmt.Printf("RBERR %d %s %v\n", i, id, strings.ReplaceAll(err.Error(), "\n", " "))
		} else if sha(rb) != sha(bs) {
			fmt.Printf("RBERR %d %s returned-sha-%s\n", i, id, sha(rb))
		}
		if self && i == k {
			_ = syscall.Kill(os.Getpid(), syscall.SIGKILL)
			time.Sleep(time.Hour)
		}
	}
	fmt.Println("DONE")
	// exit without Close: an abrupt but orderly end
	os.Exit(0)
}

type c16Model struct {
	lastAck   map[string]string          // id -> sha of the last acknowledged write
	afterAck  map[string]map[string]bool // id -> shas attempted after the last ack (in flight at some kill)
	attempted map[string]map[string]bool // id -> every sha ever attempted
}

func runC16(c c16Case) (*vh.Violation, vh.Outcome) {
	out := vh.Outcome{}
	base := os.Getenv("VERIF_SCRATCH")
	if base == "" {
		base = os.TempDir()
	}
	dir, err := os.MkdirTemp(base, "c16-")
	if err != nil {
		return vh.V("harness/tmpdir", "%v", err), out
	}
	defer os.RemoveAll(dir)
	m := &c16Model{lastAck: map[string]string{}, afterAck: map[string]map[string]bool{}, attempted: map[string]map[string]bool{}}
	ids := map[string]vaa.VAAID{}
	for ci, cy := range c.Cycles {
		cmd := exec.Command(os.Args[0], "-test.run", "^TestVerif_C16_Child$", "-test.timeout", "120s")
		cmd.Env = append(os.Environ(), "VERIF_C16_CHILD=1", "VERIF_C16_DIR="+dir, fmt.Sprintf("VERIF_C16_SEED=%d", c.Seed), fmt.Sprintf("VERIF_C16_CYCLE=%d", ci),
			fmt.Sprintf("VERIF_C16_N=%d", cy.N), fmt.Sprintf("VERIF_C16_K=%d", cy.K), fmt.Sprintf("VERIF_C16_IDSPACE=%d", c.IDSpace), fmt.Sprintf("VERIF_C16_BIG=%d", cy.Big),
			"VERIF_C16_KILL="+cy.Kill, "VERIF_STATS=", "VERIF_FAILCASE=", "VERIF_REPLAY=")
		stdout, err := cmd.StdoutPipe()
		if err != nil {
			return vh.V("harness/pipe", "%v", err), out
		}
		cmd.Stderr = nil
		if err := cmd.Start(); err != nil {
			return vh.V("harness/start", "%v", err), out
		}
		var timer *time.Timer
		if cy.Kill == "delay" {
			timer = time.AfterFunc(time.Duration(cy.Delay)*time.Millisecond, func() { _ = cmd.Process.Signal(syscall.SIGKILL) })
		}
		// a reopen that never returns is a store that does not reopen
		var openedFlag, hung int32
		hangTimer := time.AfterFunc(c16OpenDeadline, func() {
			if atomic.LoadInt32(&openedFlag) == 0 {
				atomic.StoreInt32(&hung, 1)
				_ = cmd.Process.Signal(syscall.SIGKILL)
			}
		})
		acks, tries := 0, 0
		opened, openFail := false, ""
		readback := ""
		pending := map[string]string{} // try index -> id|sha not yet acked
		sc := bufio.NewScanner(stdout)
		sc.Buffer(make([]byte, 1<<16), 1<<20)
		for sc.Scan() {
			f := strings.Fields(sc.Text())
			if len(f) == 0 {
				continue
			}
			switch f[0] {
			case "OPENED":
				opened = true
				atomic.StoreInt32(&openedFlag, 1)
			case "OPENFAIL":
				openFail = sc.Text()
			case "RBERR":
				if readback == "" {
					readback = sc.Text()
				}
			case "TRY":
				if len(f) == 4 {
					tries++
					id, s := f[2], f[3]
					if m.attempted[id] == nil {
						m.attempted[id] = map[string]bool{}
					}
					m.attempted[id][s] = true
					if m.afterAck[id] == nil {
						m.afterAck[id] = map[string]bool{}
					}
					m.afterAck[id][s] = true
					pending[f[1]] = id
					if vid, err := vaa.VaaIDFromString(id); err == nil {
						ids[id] = *vid
					}
				}
			case "ACK":
				if len(f) == 4 {
					acks++
					id, s := f[2], f[3]
					m.lastAck[id] = s
					m.afterAck[id] = map[string]bool{} // writes attempted before this ack can no longer be "in flight after it"
					delete(pending, f[1])
					if cy.Kill == "parent" && acks-1 == cy.K {
						_ = cmd.Process.Signal(syscall.SIGKILL)
					}
				}
			}
		}
		_ = cmd.Wait()
		hangTimer.Stop()
		if atomic.LoadInt32(&hung) == 1 {
			return vh.V("C16/store-does-not-reopen", "cycle %d: the store did not reopen within %v after the previous kill (Open never returned)", ci, c16OpenDeadline), out
		}
		if timer != nil {
			timer.Stop()
		}
		if openFail != "" || (!opened && ci > 0 && cy.Kill != "delay") {
			return vh.V("C16/store-does-not-reopen", "cycle %d: the child could not reopen the store after the previous kill: %s", ci, openFail), out
		}
		if readback != "" {
			if strings.Contains(readback, "concurrent-lookup") {
				return vh.V("C16/acknowledged-write-not-readable", "cycle %d: a lookup made while an identifier with an acknowledged VAA was being stored again, on the same open store, returned none of the VAAs stored under it: %s", ci, readback), out
			}
			return vh.V("C16/acknowledged-write-not-readable", "cycle %d: a lookup right after the acknowledged store, on the same open store, did not return the stored VAA: %s", ci, readback), out
		}
		if acks > 0 && len(pending) > 0 {
			out.NonTrivial = true
		}
		out.Labels = append(out.Labels, "kill:"+cy.Kill)
		if cy.NoVerify && ci < len(c.Cycles)-1 {
			out.Labels = append(out.Labels, "back-to-back-kill")
			continue
		}
		// ---- verify: every lookup is made first and the results are held, then they are judged (a lookup must hand
		// out bytes that stay what they are while later lookups run)
		var d *Database
		if !within(c16OpenDeadline, func() { d, err = Open(dir) }) {
			return vh.V("C16/store-does-not-reopen", "cycle %d: reopening after the kill did not return within %v", ci, c16OpenDeadline), out
		}
		if err != nil {
			return vh.V("C16/store-does-not-reopen", "cycle %d: reopening after the kill failed: %v", ci, err), out
		}
		type res struct {
			b   []byte
			err error
		}
		got := map[string]res{}
		for id := range m.attempted {
			b, err := d.GetSignedVAABytes(ids[id])
			got[id] = res{b, err}
		}
		// identifiers under which nothing was ever stored (their decimal sequence may be a prefix of a stored one)
		for tc := 0; tc < 2; tc++ {
			for seq := 0; seq <= c.IDSpace+1; seq++ {
				vid := vaa.VAAID{EmitterChain: 2, EmitterAddress: vaa.Address{31: 7}, TargetChain: vaa.ChainID(tc), Sequence: uint64(seq)}
				if _, tried := m.attempted[vid.ToString()]; tried {
					continue
				}
				if b, err := d.GetSignedVAABytes(vid); err != ErrVAANotFound {
					_ = d.Close()
					return vh.V("C16/bytes-for-an-identifier-never-stored", "cycle %d: lookup of %s, under which nothing was ever stored, returned %d bytes / error %v", ci, vid.ToString(), len(b), err), out
				}
			}
		}
		for id, want := range m.lastAck {
			b, err := got[id].b, got[id].err
			if err != nil {
				_ = d.Close()
				return vh.V("C16/acknowledged-write-lost", "cycle %d (%s after write %d): %s was acknowledged (sha %s) but lookup after kill+reopen says: %v", ci, cy.Kill, cy.K, id, want, err), out
			}
			if got := sha(b); got != want && !m.afterAck[id][got] {
				_ = d.Close()
				return vh.V("C16/acknowledged-write-replaced", "cycle %d: %s returns sha %s; last acknowledged %s, in-flight afterwards %v", ci, id, got, want, keys(m.afterAck[id])), out
			}
			if _, err := vaa.Unmarshal(b); err != nil {
				_ = d.Close()
				return vh.V("C16/stored-bytes-corrupt", "cycle %d: %s does not decode: %v", ci, id, err), out
			}
		}
		for id, set := range m.attempted {
			b, err := got[id].b, got[id].err
			if err == ErrVAANotFound {
				continue
			}
			if err != nil {
				_ = d.Close()
				return vh.V("C16/lookup-error", "cycle %d: %s: %v", ci, id, err), out
			}
			if !set[sha(b)] {
				_ = d.Close()
				return vh.V("C16/never-written-bytes", "cycle %d: %s returns bytes (sha %s) that were never stored under that id", ci, id, sha(b)), out
			}
		}
		var cerr error
		if !within(c16OpenDeadline, func() { cerr = d.Close() }) {
			// the statement says nothing about closing; the store object is abandoned (the directory lock dies with this process)
			out.Labels = append(out.Labels, "close-did-not-return")
			return nil, out
		}
		if cerr != nil {
			return vh.V("harness/close", "%v", cerr), out
		}
	}
	return nil, out
}

func keys(m map[string]bool) []string {
	var out []string
	for k := range m {
		out = append(out, k)
	}
	return out
}

func genC16(t *rapid.T) c16Case {
	c := c16Case{Seed: rapid.Uint64Range(1, 1<<20).Draw(t, "seed"), IDSpace: rapid.SampledFrom([]int{3, 8, 40}).Draw(t, "idspace")}
	cy := rapid.Custom(func(t *rapid.T) c16Cycle {
		n := rapid.IntRange(1, 60).Draw(t, "n")
		return c16Cycle{N: n, Kill: rapid.SampledFrom([]string{"self", "self", "self", "parent", "parent", "delay", "none"}).Draw(t, "kill"),
			K: rapid.IntRange(0, n-1).Draw(t, "k"), Delay: rapid.IntRange(0, 300).Draw(t, "delay"), Big: rapid.SampledFrom([]int{0, 0, 0, 1, 1, 2, 2, 3}).Draw(t, "big"),
			NoVerify: rapid.IntRange(0, 9).Draw(t, "noverify") < 4}
	})
	c.Cycles = rapid.SliceOfN(cy, 2, 6).Draw(t, "cycles")
	return c
}

func TestVerif_C16_KillCycles(t *testing.T) {
	if filepath.Base(os.Args[0]) == "" {
		t.Skip()
	}
	vh.Check(t, vh.Prop[c16Case]{ID: "C16", Gen: genC16, Run: runC16})
}
