//go:build verif

package processor

import (
	"fmt"
	"math/big"
	"testing"

	vh "github.com/alephium/wormhole-fork/node/zzverif"
	ethcommon "github.com/ethereum/go-ethereum/common"
	"pgregory.net/rapid"
)

type c07Row struct {
	N      int `json:"n"`
	Go     int `json:"go"`
	Ref    int `json:"ref"`
	Sol    int `json:"sol"`
	Ral    int `json:"ralph"`
	RalMin int `json:"ralph_min_accepted,omitempty"`
}

// Exhaustive table n = 0..255: Go function == floor(2n/3)+1 == formula extracted from Messages.sol ==
// formula extracted from governance.ral, BFT inequalities, and (behaviourally) the smallest signature
// count the interpreted parseAndVerifyVAA accepts for an n-guardian set.
func TestVerif_C07_Table(t *testing.T) {
	pl := vh.NewPlain(t, "C07")
	defer pl.Flush()
	c, err := vh.LoadContracts()
	if err != nil {
		pl.Violate(vh.V("harness/extractor", "%v", err), nil)
		return
	}
	gov := c.File("contracts/governance.ral")
	var ralExpr vh.RNode
	if gov != nil && gov.Functions["parseAndVerifyVAA"] != nil {
		ralExpr = gov.Functions["parseAndVerifyVAA"].FindLet("quorumSize")
	}
	if ralExpr == nil {
		pl.Violate(vh.V("harness/extractor", "quorumSize binding not found in governance.ral parseAndVerifyVAA"), nil)
		return
	}
	body := vh.RefBody(vh.Body{Timestamp: 1, Nonce: 2, EmitterChain: 3, TargetChain: 4, Sequence: 5, CL: 6, Payload: []byte{7}})
	digest := vh.RefDigest(body)
	sigCache := map[int]vh.RefSig{}
	sigOf := func(i int) vh.RefSig {
		if s, ok := sigCache[i]; ok {
			return s
		}
		var s vh.RefSig
		s.Index = uint8(i)
		copy(s.Sig[:], vh.SignDigest(i, digest[:]))
		sigCache[i] = s
		return s
	}
	thorough := vh.Thorough()
	for n := 0; n <= 255; n++ {
		row := c07Row{N: n, Go: CalculateQuorum(n), Ref: 2*n/3 + 1}
		sol, err := c.SolQuorum(n)
		if err != nil && vh.IsAbort(err) {
			// the Ethereum contract refuses to compute a threshold for this size: no VAA of such a set can ever be accepted
			pl.Record(row, vh.Outcome{NonTrivial: n >= 1})
			if pl.Violate(vh.V("C07/sol-quorum-reverts", "n=%d: Messages.sol quorum(%d) reverts (%v); the node completes a VAA of that set at %d signatures", n, n, err, row.Go), row) {
				continue
			}
			return
		}
		if err != nil {
			pl.Violate(vh.V("harness/extractor", "solidity quorum: %v", err), row)
			return
		}
		ral, err := vh.EvalInt(ralExpr, map[string]*big.Int{"guardianSize": big.NewInt(int64(n))})
		if err != nil {
			pl.Violate(vh.V("harness/extractor", "ralph quorum: %v", err), row)
			return
		}
		row.Sol, row.Ral = int(sol.Int64()), int(ral.Int64())
		var v *vh.Violation
		switch {
		case row.Go != row.Ref:
			v = vh.V("C07/go-differs-from-formula", "n=%d: CalculateQuorum=%d, floor(2n/3)+1=%d", n, row.Go, row.Ref)
		case row.Sol != row.Ref:
			v = vh.V("C07/solidity-differs", "n=%d: Messages.sol quorum=%d, floor(2n/3)+1=%d", n, row.Sol, row.Ref)
		case row.Ral != row.Ref:
			v = vh.V("C07/ralph-differs", "n=%d: governance.ral quorumSize=%d, floor(2n/3)+1=%d", n, row.Ral, row.Ref)
		case n >= 1 && !(3*row.Go > 2*n && row.Go <= n && 3*(2*row.Go-n) > n):
			v = vh.V("C07/not-bft-safe", "n=%d q=%d violates 3q>2n, q<=n or 2q-n>n/3", n, row.Go)
		}
		// behavioural: the interpreted Ralph verifier accepts exactly from q signatures on
		if v == nil && n >= 1 && (thorough || n <= 40 || n%16 == 0 || n >= 250 || n == 127 || n == 128 || n == 129) {
			set := make([]ethcommon.Address, n)
			for i := range set {
				set[i] = vh.Addr(i)
			}
			accept := func(k int) (bool, error) {
				sigs := make([]vh.RefSig, k)
				for i := 0; i < k; i++ {
					sigs[i] = sigOf(i)
				}
				_, err := c.RalphParseAndVerify(vh.RefMarshal(1, 9, sigs, body), 9, set)
				if err == nil {
					return true, nil
				}
				if vh.IsAbort(err) {
					return false, nil
				}
				return false, err
			}
			okQ, err1 := accept(row.Go)
			okQm1, err2 := true, error(nil)
			if row.Go-1 >= 0 {
				okQm1, err2 = accept(row.Go - 1)
			}
			if err1 != nil || err2 != nil {
				pl.Violate(vh.V("harness/extractor", "interpreting parseAndVerifyVAA: %v %v", err1, err2), row)
				return
			}
			row.RalMin = row.Go
			if !okQ {
				v = vh.V("C07/contract-rejects-node-quorum", "n=%d: a VAA with the node's quorum of %d valid signatures is rejected by governance.ral parseAndVerifyVAA", n, row.Go)
			} else if okQm1 {
				v = vh.V("C07/contract-accepts-below-node-quorum", "n=%d: governance.ral parseAndVerifyVAA accepts %d signatures, the node requires %d", n, row.Go-1, row.Go)
			}
			// the same on the Solidity side (formula + verification loop semantics)
			if v == nil {
				for _, k := range []int{row.Go - 1, row.Go} {
					if k < 0 {
						continue
					}
					sigs := make([]vh.RefSig, k)
					for i := 0; i < k; i++ {
						sigs[i] = sigOf(i)
						sigs[i].Sig[64] += 27 // parseVM adds 27 itself; SolVerify expects the raw wire byte: undo below
					}
					for i := range sigs {
						sigs[i].Sig[64] -= 27
					}
					vm, err := c.SolParseVM(vh.RefMarshal(1, 9, sigs, body))
					if err != nil {
						pl.Violate(vh.V("harness/extractor", "SolParseVM: %v", err), row)
						return
					}
					err = c.SolVerify(vm, set)
					if (err == nil) != (k >= row.Go) {
						v = vh.V("C07/solidity-threshold-differs", "n=%d: Messages.sol accepts=%v for %d signatures, node quorum is %d", n, err == nil, k, row.Go)
					}
				}
			}
		}
		pl.Record(row, vh.Outcome{NonTrivial: n >= 1})
		if v != nil {
			pl.Violate(v, row)
		}
	}
	pl.SetExtra("exhaustive_range", "n = 0..255")
}

// Large n: the Go function's fixed-point rounding against the formula (not reachable on the wire,
// documented as an extension).
func TestVerif_C07_LargeN(t *testing.T) {
	vh.Check(t, vh.Prop[int]{ID: "C07", Gen: func(t *rapid.T) int { return rapid.IntRange(256, 1000000).Draw(t, "n") }, Run: func(n int) (*vh.Violation, vh.Outcome) {
		if CalculateQuorum(n) != 2*n/3+1 {
			return vh.V("C07/go-differs-from-formula-large-n", "n=%d: CalculateQuorum=%d, floor(2n/3)+1=%d", n, CalculateQuorum(n), 2*n/3+1), vh.Outcome{NonTrivial: true}
		}
		return nil, vh.Outcome{NonTrivial: true, Labels: []string{fmt.Sprintf("n~1e%d", len(fmt.Sprint(n))-1)}}
	}})
}
