//go:build verif

package processor

import (
	"bytes"
	"fmt"
	"reflect"
	"sort"
	"time"

	gossipv1 "github.com/alephium/wormhole-fork/node/pkg/proto/gossip/v1"
	"github.com/alephium/wormhole-fork/node/pkg/vaa"
	vh "github.com/alephium/wormhole-fork/node/zzverif"
	ethcommon "github.com/ethereum/go-ethereum/common"
)

// Oracles that a run may enable. The executor is shared by C01, C02, C03 (observations) and C13.
type oracles struct {
	safety    bool          // C01: everything stored/broadcast verifies against the right set
	model     bool          // C02: publication exactly when observed && quorum, per the reference model
	gossip    bool          // C03: unacceptable observations leave no trace, acceptable ones are recorded
	live      bool          // C13: after the script a fresh message still reaches quorum
	contracts *vh.Contracts // C07: every locally published VAA is accepted by the interpreted contract verifiers
	digest    bool          // C04: every own SignedObservation carries the reference digest of the observed message
	adv       bool          // C13: adversarial ops allowed (injection before the first set, arbitrary injected VAAs)
	pfx       string
}

// reference model of one digest (C02)
type digestModel struct {
	observed  bool
	snapshot  *setInfo
	accepted  map[ethcommon.Address]bool
	published bool
	exists    bool // an aggregation entry exists (parked or observed)
}

type runner struct {
	e        *penv
	o        oracles
	model    map[string]*digestModel
	obsIdx   map[string]map[uint32]bool // digest -> set indices in force at effective observations
	labels   map[string]bool
	nPub     int
	nStored  int
	hasClean bool
	anyTick  bool // the case contains a free-form "cleanup" op: entries come and go outside the step-by-step bookkeeping
	nSettle  int
	nRetry   int
	// digests of every VAA actually broadcast (observed behaviour, not the model)
	actualPublished map[string]bool
}

func (r *runner) label(l string) { r.labels[l] = true }

func (r *runner) dm(hash string) *digestModel {
	m := r.model[hash]
	if m == nil {
		m = &digestModel{accepted: map[ethcommon.Address]bool{}}
		r.model[hash] = m
	}
	return m
}

func (r *runner) applicable(hash string) *setInfo {
	if m := r.model[hash]; m != nil && m.observed && m.snapshot != nil {
		return m.snapshot
	}
	return r.e.cur
}

// observeExpected: does the statement (plus the documented stored-and-newer rule) require the
// node to sign this observation?
func (r *runner) observeEffective(m *msgInfo) bool {
	if r.e.cur == nil || m.gov {
		return false
	}
	if b := r.e.shadow[m.id.ToString()]; b != nil && !r.e.faultDB { // a store that fails every lookup cannot tell
		if p, err := vh.RefParse(b); err == nil {
			if m.pub.Timestamp.Sub(time.Unix(int64(p.Body.Timestamp), 0)) > 30*time.Second {
				return false
			}
		}
	}
	return true
}

func (r *runner) checkOwnObservation(m *msgInfo, o *gossipv1.SignedObservation, injected bool) *vh.Violation {
	own := vh.Addr(r.e.ownKey)
	if !bytes.Equal(o.Hash, m.digest[:]) {
		return vh.V(r.o.pfx+"/own-observation-wrong-digest", "SignedObservation hash %x != reference digest %x of the observed message", o.Hash, m.digest)
	}
	a, err := vh.RefRecover(o.Hash, o.Signature)
	if err != nil || a != own || !bytes.Equal(o.Addr, own.Bytes()) {
		return vh.V(r.o.pfx+"/own-observation-bad-signature", "own SignedObservation does not carry a valid signature of the node's key (recovered %s, err %v)", a.Hex(), err)
	}
	if !injected && !bytes.Equal(o.TxHash, m.pub.TxHash.Bytes()) {
		return vh.V(r.o.pfx+"/own-observation-wrong-tx", "SignedObservation tx hash differs from the observed transaction")
	}
	return nil
}

// judgePublished applies the C01 safety oracle to one locally assembled VAA.
func (r *runner) judgePublished(b []byte) (int, *vh.Violation) {
	p, err := vh.RefParse(b)
	if err != nil {
		return -1, vh.V("C01/published-unparsable", "broadcast/stored VAA is not a well-formed encoding: %v", err)
	}
	j, ok := r.e.byBody[string(p.BodyBytes)]
	if !ok {
		return -1, vh.V("C01/published-body-never-observed", "published VAA body matches no message the node observed or was injected")
	}
	m := r.e.msgs[j]
	idxs := r.obsIdx[m.hash]
	if !idxs[p.GSIndex] {
		return j, vh.V("C01/names-set-not-in-force-at-observation", "VAA names guardian set %d, but the message was observed under %v", p.GSIndex, keysOf(idxs))
	}
	set := r.e.setByIdx[p.GSIndex]
	if set == nil {
		return j, vh.V("C01/names-unknown-set", "VAA names set %d never learned from chain", p.GSIndex)
	}
	if err := vh.RefVerifySigs(m.digest, p.Sigs, set.Addrs, true); err != nil {
		return j, vh.V("C01/local-vaa-fails-verification", "locally assembled VAA for set %d (n=%d) fails verification: %v", p.GSIndex, len(set.Addrs), err)
	}
	return j, nil
}

func keysOf(m map[uint32]bool) []uint32 {
	var out []uint32
	for k := range m {
		out = append(out, k)
	}
	return out
}

func runProc(c procCase, o oracles, reqCap int) (*vh.Violation, vh.Outcome) {
	_, v, out := runProcR(c, o, reqCap)
	return v, out
}

// publishedDigests returns the digests the model saw published, sorted.
func (r *runner) publishedDigests() []string {
	var out []string
	for h, d := range r.model {
		if d.published {
			out = append(out, h)
		}
	}
	sort.Strings(out)
	return out
}

var queueFiller = &gossipv1.SignedObservation{Hash: []byte{0xfe}, Signature: []byte{0xfe}, Addr: []byte{0xfe}}

func runProcR(c procCase, o oracles, reqCap int) (*runner, *vh.Violation, vh.Outcome) {
	e := newEnv(c, reqCap)
	defer e.wipe()
	r := &runner{e: e, o: o, model: map[string]*digestModel{}, obsIdx: map[string]map[uint32]bool{}, labels: map[string]bool{}, actualPublished: map[string]bool{}}
	for _, x := range c.Ops {
		if x.K == "cleanup" {
			r.hasClean = true
			r.anyTick = true
		}
	}
	out := vh.Outcome{}
	finish := func(v *vh.Violation) (*runner, *vh.Violation, vh.Outcome) {
		for l := range r.labels {
			out.Labels = append(out.Labels, l)
		}
		sort.Strings(out.Labels)
		return r, v, out
	}
	for i, x := range c.Ops {
		if v := r.step(i, x); v != nil {
			v.Msg = fmt.Sprintf("op %d %+v: %s", i, x, v.Msg)
			return finish(v)
		}
	}
	if o.live {
		if v := r.liveness(); v != nil {
			return finish(v)
		}
	}
	out.NonTrivial = r.nPub > 0 || r.nStored > 0
	switch n := len(c.Ops); {
	case n >= 20:
		r.label("ops>=20")
	case n >= 8:
		r.label("ops 8..19")
	default:
		r.label("ops<8")
	}
	if r.nPub > 0 {
		r.label("published-locally")
	}
	return finish(nil)
}

func (r *runner) step(i int, x op) *vh.Violation {
	e := r.e
	modelOn := !r.hasClean
	gossipOn := !r.anyTick // C03's before/after comparison only needs to know which entries exist (see resync)
	switch x.K {
	case "set":
		e.applySet(x.A, x.B, x.C, x.D)
		so, v := e.drain()
		if v != nil {
			return v
		}
		return r.expectQuiet(so, "guardian-set update")

	case "observe", "inject":
		m := e.msg(x.A)
		if m == nil {
			return nil
		}
		effective := false
		busyGot := 0
		var govBefore map[string]aggEntry
		if x.K == "observe" {
			effective = r.observeEffective(m)
			if m.gov {
				govBefore = e.aggSnapshot()
			}
			busy := x.D == 1 && len(e.obsvC) == 0
			if busy {
				// the inbound observation queue is full (a burst of gossip) at the moment the node observes the message; the
				// run loop then works the queue off. The node's own observation must still get in.
				for len(e.obsvC) < cap(e.obsvC) {
					e.obsvC <- queueFiller
				}
				r.label("observed-with-full-inbound-queue")
			}
			e.p.handleMessage(e.ctx, m.pub)
			if busy {
				for n := cap(e.obsvC); n > 0; n-- {
					if o := <-e.obsvC; o != queueFiller {
						e.pending = append(e.pending, o)
						busyGot++
					}
				}
			}
		} else {
			if e.cur == nil && !r.o.adv {
				// injection before the first guardian set is exercised by C13 only
				return nil
			}
			effective = e.cur != nil
			gsi := uint32(x.B)
			if e.cur != nil && !r.o.adv {
				gsi = e.cur.Index
			}
			if e.cur == nil {
				r.label("injection-before-first-set")
			}
			v := &vaa.VAA{Version: 1, GuardianSetIndex: gsi, Timestamp: m.pub.Timestamp, Nonce: m.pub.Nonce, Sequence: m.pub.Sequence,
				ConsistencyLevel: m.pub.ConsistencyLevel, EmitterChain: m.pub.EmitterChain, TargetChain: m.pub.TargetChain, EmitterAddress: m.pub.EmitterAddress, Payload: m.pub.Payload}
			e.p.handleInjection(e.ctx, v)
		}
		so, v := e.drain()
		if v != nil {
			return v
		}
		if len(so.vaas) > 0 || len(so.changed) > 0 {
			return vh.V(r.o.pfx+"/publish-at-observe-step", "%s produced %d VAA broadcasts and %d store changes; publication happens only when an observation is delivered", x.K, len(so.vaas), len(so.changed))
		}
		if busyGot > len(so.obs) {
			busyGot = len(so.obs)
		}
		if !e.takeLoopbacks(len(so.obs) - busyGot) {
			if x.K == "observe" && x.D == 1 {
				return vh.V("C02/own-observation-lost-under-queue-pressure", "the inbound observation queue was full when the node observed the message; after the queue had been worked off the node's own observation never entered it")
			}
			return vh.V("harness/loopback-missing", "own-signature loopback did not arrive")
		}
		if m.gov && x.K == "observe" {
			r.label("governance-emitter-observed")
			if len(so.obs) > 0 || !reflect.DeepEqual(govBefore, e.aggSnapshot()) {
				return vh.V("C02/governance-emitter-signed", "a chain observation naming the governance emitter was signed")
			}
			return nil
		}
		if effective {
			if len(so.obs) != 1 {
				if r.o.model {
					return vh.V("C02/observation-not-signed", "%s of a message produced %d SignedObservations, want exactly 1", x.K, len(so.obs))
				}
			}
			for _, ob := range so.obs {
				if v := r.checkOwnObservation(m, ob, x.K == "inject"); v != nil && (r.o.model || r.o.safety || r.o.digest) {
					return v
				}
			}
			if len(so.obs) >= 1 {
				if r.obsIdx[m.hash] == nil {
					r.obsIdx[m.hash] = map[uint32]bool{}
				}
				r.obsIdx[m.hash][e.cur.Index] = true
				d := r.dm(m.hash)
				if d.observed && d.snapshot != e.cur {
					r.label("reobserved-under-new-set")
				}
				if d.exists && !d.observed {
					r.label("parked-signatures-before-observe")
				}
				d.observed, d.snapshot, d.exists = true, e.cur, true
			}
		} else {
			if len(so.obs) != 0 && (r.o.model) {
				return vh.V("C02/signed-when-it-must-not", "%s must be ignored (no guardian set yet / governance emitter / stored VAA more than 30s older) but %d SignedObservations were sent", x.K, len(so.obs))
			}
			if len(so.obs) != 0 {
				// keep the harness's bookkeeping in step with the code even when the model is off
				if r.obsIdx[m.hash] == nil {
					r.obsIdx[m.hash] = map[uint32]bool{}
				}
				if e.cur != nil {
					r.obsIdx[m.hash][e.cur.Index] = true
				}
			}
		}
		return nil

	case "loopback", "gossip":
		var ob *gossipv1.SignedObservation
		kind := "valid"
		if x.K == "loopback" {
			if len(e.pending) == 0 {
				return nil
			}
			k := x.A % len(e.pending)
			ob = e.pending[k]
			if x.B == 0 {
				e.pending = append(e.pending[:k], e.pending[k+1:]...)
			} else {
				r.label("duplicate-loopback")
			}
		} else {
			m := e.msg(x.A)
			if m == nil {
				return nil
			}
			kind = obsKinds[x.C%len(obsKinds)]
			ob = mkObservation(m, e.msg(x.A+1), x.B, kind, x.D)
		}
		hash := fmt.Sprintf("%x", ob.Hash)
		appl := r.applicable(hash)
		signer, acceptable := obsAcceptable(ob, appl)
		var before map[string]aggEntry
		if r.o.gossip && gossipOn {
			before = e.aggSnapshot()
		}
		e.p.handleObservation(e.ctx, ob)
		so, v := e.drain()
		if v != nil {
			return v
		}
		if len(so.obs) != 0 || len(so.reqs) != 0 {
			return vh.V(r.o.pfx+"/unexpected-output", "delivering an observation emitted %d SignedObservations / %d requests", len(so.obs), len(so.reqs))
		}
		// ---- C03: side effects only for acceptable observations
		if r.o.gossip && gossipOn {
			after := e.aggSnapshot()
			if !acceptable {
				r.label("rejected:" + kind)
				if !reflect.DeepEqual(before, after) || len(so.vaas) > 0 || len(so.changed) > 0 {
					return vh.V("C03/unacceptable-observation-changed-state", "an observation (%s) that does not carry a valid signature of a member of the applicable set changed node state (aggregation changed=%v, broadcasts=%d, store changes=%d)",
						kind, !reflect.DeepEqual(before, after), len(so.vaas), len(so.changed))
				}
			} else {
				ent, ok := after[hash]
				if !ok || ent.Sigs[signer] != string(ob.Signature) {
					return vh.V("C03/acceptable-observation-not-recorded", "a valid observation by a member of the applicable set was not recorded")
				}
				// nothing else may change
				for h, a := range after {
					if h != hash && !reflect.DeepEqual(a, before[h]) {
						return vh.V("C03/observation-touched-other-digest", "observation for %s changed the entry of %s", hash[:8], h[:8])
					}
				}
				if b, ok := before[hash]; ok {
					for ad, s := range ent.Sigs {
						if ad != signer && b.Sigs[ad] != s {
							return vh.V("C03/observation-touched-other-signer", "observation by %s changed the recorded signature of %s", signer.Hex(), ad.Hex())
						}
					}
					if len(ent.Sigs) > len(b.Sigs)+1 {
						return vh.V("C03/observation-touched-other-signer", "one observation added %d signatures", len(ent.Sigs)-len(b.Sigs))
					}
				} else if len(ent.Sigs) != 1 {
					return vh.V("C03/observation-touched-other-signer", "first observation created an entry with %d signatures", len(ent.Sigs))
				}
			}
		}
		// ---- C01: safety of whatever was published in this step
		for _, b := range so.vaas {
			r.nPub++
			if p, err := vh.RefParse(b); err == nil {
				if j, ok := e.byBody[string(p.BodyBytes)]; ok {
					r.actualPublished[fmt.Sprintf("message-%02d", j)] = true
				} else {
					r.actualPublished["unknown-body"] = true
				}
			}
			if r.o.safety {
				if _, v := r.judgePublished(b); v != nil {
					return v
				}
			}
			if r.o.contracts != nil {
				if v := r.contractsAccept(b); v != nil {
					return v
				}
			}
		}
		for id, ch := range so.changed {
			r.nStored++
			if r.o.safety {
				found := false
				for _, b := range so.vaas {
					if bytes.Equal(b, ch[1]) {
						found = true
					}
				}
				if !found {
					if ch[1] == nil {
						return vh.V("C01/stored-vaa-deleted", "stored VAA %s disappeared", id)
					}
					if _, v := r.judgePublished(ch[1]); v != nil {
						v.Msg = "stored (not broadcast) VAA: " + v.Msg
						return v
					}
				}
			}
		}
		// ---- C01: what subscribers of the attestation event reporter are told is exactly what was published
		if r.o.safety {
			if len(so.quorumEvents) != len(so.vaas) {
				return vh.V("C01/quorum-event-count", "%d VAAs broadcast but %d VAAQuorum events reported", len(so.vaas), len(so.quorumEvents))
			}
			for k, b := range so.quorumEvents {
				if !bytes.Equal(b, so.vaas[k]) {
					return vh.V("C01/quorum-event-differs", "the VAA reported to event subscribers differs from the broadcast VAA")
				}
			}
		}
		// ---- C02: the reference model
		if r.o.model && modelOn {
			d := r.dm(hash)
			if acceptable {
				d.accepted[signer] = true
				d.exists = true
			}
			expect := false
			if acceptable && d.observed && !d.published {
				n := 0
				for _, a := range d.snapshot.Addrs {
					if d.accepted[a] {
						n++
					}
				}
				if n >= vh.RefQuorum(len(d.snapshot.Addrs)) {
					expect = true
				}
			}
			if expect {
				if len(so.vaas) != 1 {
					return vh.V("C02/not-published-at-quorum", "observed message has valid observations from a quorum of its set (n=%d) but %d VAAs were broadcast at this step", len(d.snapshot.Addrs), len(so.vaas))
				}
				p, err := vh.RefParse(so.vaas[0])
				if err != nil {
					return vh.V("C02/published-unparsable", "%v", err)
				}
				j := e.byBody[string(p.BodyBytes)]
				m := e.msgs[j]
				if m.hash != hash || !bytes.Equal(p.BodyBytes, m.bodyB) {
					return vh.V("C02/published-body-differs", "published body is not the node's own observation of that digest")
				}
				if p.GSIndex != d.snapshot.Index || p.Version != 1 {
					return vh.V("C02/published-header-differs", "published VAA names set %d version %d, want set %d version 1", p.GSIndex, p.Version, d.snapshot.Index)
				}
				ch, ok := so.changed[m.id.ToString()]
				if !ok && !e.faultDB && !bytes.Equal(e.shadow[m.id.ToString()], so.vaas[0]) {
					return vh.V("C02/published-not-stored", "VAA was broadcast but the store does not hold it")
				}
				if ok && !bytes.Equal(ch[1], so.vaas[0]) {
					return vh.V("C02/stored-differs-from-broadcast", "stored bytes differ from the broadcast VAA")
				}
				d.published = true
				if len(d.accepted) > 0 && !(len(d.accepted) == 1 && d.accepted[vh.Addr(e.ownKey)]) {
					r.label("quorum-with-remote-signatures")
				}
			} else {
				if len(so.vaas) != 0 || len(so.changed) != 0 {
					why := "fewer than quorum distinct members of its set have signed"
					if !d.observed {
						why = "the node has not observed that message"
					} else if d.published {
						why = "it was already published in this aggregation lifetime"
					} else if !acceptable {
						why = "the delivered observation is not acceptable"
					}
					return vh.V("C02/published-when-it-must-not", "a VAA was published (%d broadcasts, %d store changes) although %s", len(so.vaas), len(so.changed), why)
				}
			}
		}
		return nil

	case "flush": // deliver every own-signature loopback still in flight (in production they always arrive)
		for n := 0; len(e.pending) > 0 && n < 64; n++ {
			if v := r.step(i, op{K: "loopback", A: 0, B: 0}); v != nil {
				return v
			}
		}
		return nil

	case "inbound":
		m := e.msg(x.A)
		if m == nil {
			return nil
		}
		kind := inboundKinds[x.B%len(inboundKinds)]
		b := e.mkInbound(m, kind, uint64(x.C))
		had := e.shadow[m.id.ToString()]
		e.p.handleInboundSignedVAAWithQuorum(e.ctx, &gossipv1.SignedVAAWithQuorum{Vaa: b})
		so, v := e.drain()
		if v != nil {
			return v
		}
		if len(so.obs) != 0 || len(so.vaas) != 0 || len(so.reqs) != 0 {
			return vh.V(r.o.pfx+"/inbound-vaa-rebroadcast", "an inbound signed VAA made the processor emit gossip")
		}
		if r.o.contracts != nil && e.cur != nil {
			// a peer's VAA the node accepts as complete under its current set is accepted on chain as well
			for _, ch := range so.changed {
				if ch[1] == nil {
					continue
				}
				if p, err := vh.RefParse(ch[1]); err == nil && p.GSIndex == e.cur.Index {
					if v := r.contractsAccept(ch[1]); v != nil {
						return v
					}
				}
			}
		}
		if r.o.safety {
			if len(so.quorumEvents) > len(so.changed) {
				return vh.V("C01/quorum-event-without-store", "an inbound VAA was reported as quorum VAA (%d events) without being stored (%d store changes)", len(so.quorumEvents), len(so.changed))
			}
			for _, b := range so.quorumEvents {
				if e.cur == nil {
					return vh.V("C01/inbound-stored-without-set", "quorum event before any guardian set")
				}
				if _, err := vh.RefVerifyVAA(b, e.cur.Addrs); err != nil {
					return vh.V("C01/inbound-vaa-fails-verification", "a peer VAA reported to event subscribers does not verify against the current set: %v", err)
				}
			}
		}
		for id, ch := range so.changed {
			r.nStored++
			r.label("inbound-stored:" + kind)
			if !r.o.safety {
				continue
			}
			if ch[0] != nil {
				return vh.V("C01/peer-copy-replaced-stored-vaa", "stored VAA %s was replaced by a peer's copy", id)
			}
			if id != m.id.ToString() || !bytes.Equal(ch[1], b) {
				return vh.V("C01/inbound-stored-differs", "store changed at %s but not to the delivered bytes", id)
			}
			if e.cur == nil {
				return vh.V("C01/inbound-stored-without-set", "inbound VAA stored before any guardian set was learned")
			}
			if _, err := vh.RefVerifyVAA(ch[1], e.cur.Addrs); err != nil {
				return vh.V("C01/inbound-vaa-fails-verification", "stored peer VAA (%s) does not verify against the current set (n=%d): %v", kind, len(e.cur.Addrs), err)
			}
		}
		if r.o.model && had == nil && e.cur != nil && len(so.changed) == 0 {
			// not part of C02's statement; nothing to assert. Label only.
			if _, err := vh.RefVerifyVAA(b, e.cur.Addrs); err == nil {
				r.label("valid-inbound-not-stored")
			}
		}
		if had != nil && len(so.changed) == 0 {
			r.label("inbound-for-stored-id")
		}
		return nil

	case "settle": // 31 s pass and a cleanup tick runs: entries become "settled", nothing else is due yet
		if r.nSettle >= 3 || e.cur == nil {
			return nil
		}
		r.nSettle++
		before := len(e.p.state.vaaSignatures)
		e.shiftTimes(31*time.Second + 500*time.Millisecond)
		e.p.handleCleanup(e.ctx)
		so, v := e.drain()
		if v != nil {
			return v
		}
		if len(so.vaas) != 0 || len(so.changed) != 0 {
			return vh.V(r.o.pfx+"/cleanup-published", "a cleanup tick published or stored a VAA")
		}
		if len(e.p.state.vaaSignatures) != before || len(so.obs) != 0 {
			r.hasClean = true // an entry was expired (its VAA is stored) or retried: the step-by-step model ends here
		}
		r.resync()
		r.label("settled-mid-aggregation")
		return nil

	case "retry": // more than five minutes pass and two cleanup ticks run: entries settle, then every pending own observation is re-broadcast
		if r.nRetry >= 2 || e.cur == nil {
			return nil
		}
		r.nRetry++
		for k, d := range []time.Duration{5*time.Minute + 500*time.Millisecond, 1500 * time.Millisecond} {
			e.shiftTimes(d)
			e.p.handleCleanup(e.ctx)
			so, v := e.drain()
			if v != nil {
				return v
			}
			if len(so.vaas) != 0 || len(so.changed) != 0 {
				return vh.V(r.o.pfx+"/cleanup-published", "a cleanup tick published or stored a VAA")
			}
			for _, ob := range so.obs {
				if a, err := vh.RefRecover(ob.Hash, ob.Signature); err != nil || a != vh.Addr(e.ownKey) {
					return vh.V(r.o.pfx+"/cleanup-rebroadcast-foreign", "cleanup re-broadcast an observation not signed by the node")
				}
				if k == 1 {
					r.label("own-observation-retransmitted")
				}
			}
		}
		r.hasClean = true // parked entries were dropped, retries sent: C02's step-by-step model ends here
		r.resync()
		return nil

	case "storefault": // from here on the VAA store fails every call (closed handle, dead disk)
		if e.cur == nil || e.faultDB {
			return nil
		}
		if err := e.breakStore(); err != nil {
			return vh.V("harness/store-fault", "%v", err)
		}
		r.label("store-failing")
		return nil

	case "cleanup":
		secs := []int{1, 31, 290, 310, 3500, 3700, 86400, 700000}
		e.shiftTimes(time.Duration(secs[x.A%len(secs)])*time.Second + 500*time.Millisecond)
		e.p.handleCleanup(e.ctx)
		so, v := e.drain()
		if v != nil {
			return v
		}
		if len(so.vaas) != 0 || len(so.changed) != 0 {
			return vh.V(r.o.pfx+"/cleanup-published", "a cleanup tick published or stored a VAA")
		}
		// re-broadcast observations must be the original own observations
		for _, ob := range so.obs {
			if a, err := vh.RefRecover(ob.Hash, ob.Signature); err != nil || a != vh.Addr(e.ownKey) {
				return vh.V(r.o.pfx+"/cleanup-rebroadcast-foreign", "cleanup re-broadcast an observation not signed by the node")
			}
		}
		// entries may have been deleted: the model is off in such cases (modelOn false)
		return nil
	}
	return nil
}

// resync: cleanup ticks drop entries (parked signatures after five minutes, entries whose VAA is stored). What the
// model remembers about a digest whose entry is gone is forgotten with it: the next observation starts a new
// aggregation lifetime, judged against the set that is current then.
func (r *runner) resync() {
	for h, d := range r.model {
		if _, ok := r.e.p.state.vaaSignatures[h]; !ok && d.exists {
			d.observed, d.snapshot, d.exists = false, nil, false
			d.accepted = map[ethcommon.Address]bool{}
		}
	}
}

func (r *runner) expectQuiet(so *stepOut, what string) *vh.Violation {
	if len(so.obs)+len(so.vaas)+len(so.reqs)+len(so.changed) != 0 {
		return vh.V(r.o.pfx+"/unexpected-output", "%s emitted gossip or changed the store", what)
	}
	return nil
}

// liveness (C13): after the adversarial script, a fresh well-formed message still reaches
// quorum and is stored.
func (r *runner) liveness() *vh.Violation {
	e := r.e
	set := e.applySet(3, 200, 0, 1)
	if _, v := e.drain(); v != nil {
		return v
	}
	m := e.mkMsg(msgSpec{IDSel: 7, Chain: 2, TC: 0, Seq: 4242, Ts: 1700000000, Nonce: 7, CL: 1, PLen: 40, PSeed: 99, Tx: 5})
	e.ids[m.id.ToString()] = m.id
	e.p.handleMessage(e.ctx, m.pub)
	so, v := e.drain()
	if v != nil {
		return v
	}
	if len(so.obs) != 1 {
		return vh.V("C13/stopped-processing", "after the script a fresh message was not signed (%d observations)", len(so.obs))
	}
	if !e.takeLoopbacks(1) {
		return vh.V("harness/loopback-missing", "own-signature loopback did not arrive")
	}
	e.p.handleObservation(e.ctx, e.pending[len(e.pending)-1])
	for _, k := range set.Keys[1:] {
		e.p.handleObservation(e.ctx, mkObservation(m, m, k, "valid", 0))
	}
	so, v = e.drain()
	if v != nil {
		return v
	}
	if len(so.vaas) != 1 || so.changed[m.id.ToString()][1] == nil {
		return vh.V("C13/stopped-processing", "after the script a fresh message did not reach quorum/store (%d broadcasts)", len(so.vaas))
	}
	if _, err := vh.RefVerifyVAA(so.vaas[0], set.Addrs); err != nil {
		return vh.V("C13/stopped-processing", "fresh message published but invalid: %v", err)
	}
	return nil
}

// contractsAccept (C07): a VAA the node considers complete must be accepted by governance.ral's
// parseAndVerifyVAA and by Messages.sol's verification, for the guardian set the VAA names.
func (r *runner) contractsAccept(b []byte) *vh.Violation {
	p, err := vh.RefParse(b)
	if err != nil {
		return vh.V("C07/published-unparsable", "%v", err)
	}
	set := r.e.setByIdx[p.GSIndex]
	if set == nil {
		return vh.V("C07/published-names-unknown-set", "set %d", p.GSIndex)
	}
	c := r.o.contracts
	if _, err := c.RalphParseAndVerify(b, p.GSIndex, set.Addrs); err != nil {
		if vh.IsAbort(err) {
			return vh.V("C07/contract-rejects-node-complete-vaa", "governance.ral parseAndVerifyVAA rejects a VAA the node published as complete (set %d, n=%d, %d signatures): %v", p.GSIndex, len(set.Addrs), len(p.Sigs), err)
		}
		return vh.V("harness/extractor", "%v", err)
	}
	vm, err := c.SolParseVM(b)
	if err == nil {
		err = c.SolVerify(vm, set.Addrs)
	}
	if err != nil {
		if vh.IsAbort(err) {
			return vh.V("C07/contract-rejects-node-complete-vaa", "Messages.sol verification rejects a VAA the node published as complete (set %d, n=%d, %d signatures): %v", p.GSIndex, len(set.Addrs), len(p.Sigs), err)
		}
		return vh.V("harness/extractor", "%v", err)
	}
	r.label("contracts-accepted-published-vaa")
	return nil
}
