//go:build verif

package processor

import (
	"reflect"
	"sort"
	"testing"

	vh "github.com/alephium/wormhole-fork/node/zzverif"
	"pgregory.net/rapid"
)

// ------------------------------------------------------------------ generators

func genMsgs(t *rapid.T, n int, adversarial bool) []msgSpec {
	out := make([]msgSpec, n)
	baseTs := rapid.Uint32Range(1000, 1<<31).Draw(t, "basets")
	for i := range out {
		m := msgSpec{
			IDSel: rapid.IntRange(0, 1).Draw(t, "idsel"),
			Chain: rapid.SampledFrom([]uint16{1, 2, 255}).Draw(t, "chain"),
			TC:    rapid.SampledFrom([]uint16{0, 2}).Draw(t, "tc"),
			Seq:   rapid.Uint64Range(0, 1).Draw(t, "seq"),
			// same-id messages with different timestamps exercise the stored-and-newer rule
			Ts:    baseTs + rapid.SampledFrom([]uint32{0, 0, 1, 29, 30, 31, 600}).Draw(t, "dts"),
			Nonce: rapid.Uint32Range(0, 3).Draw(t, "nonce"),
			CL:    rapid.SampledFrom([]uint8{0, 1, 15, 200}).Draw(t, "cl"),
			PLen:  rapid.OneOf(rapid.IntRange(1, 40), rapid.IntRange(1, 1500)).Draw(t, "plen"),
			PSeed: rapid.Uint64Range(0, 3).Draw(t, "pseed"),
			Tx:    rapid.Uint64Range(0, 3).Draw(t, "tx"),
		}
		if rapid.IntRange(0, 11).Draw(t, "gov") == 0 {
			m.IDSel = 9 // governance emitter address; chain decides whether it is *the* governance emitter
			m.Chain = rapid.SampledFrom([]uint16{1, 1, 2}).Draw(t, "govchain")
		}
		if adversarial {
			m.PLen = rapid.OneOf(rapid.Just(0), rapid.IntRange(0, 3), rapid.IntRange(0, 3000)).Draw(t, "aplen")
			m.Ts = rapid.OneOf(rapid.Just(uint32(0)), rapid.Uint32()).Draw(t, "ats")
			m.Nanos = rapid.Int64Range(0, 999999999).Draw(t, "ans")
		}
		out[i] = m
	}
	return out
}

func genSetOp(t *rapid.T) op {
	size := rapid.OneOf(rapid.IntRange(1, 4), rapid.IntRange(1, 19), rapid.SampledFrom([]int{1, 2, 3, 13, 19})).Draw(t, "size")
	return op{K: "set", A: size,
		B: rapid.SampledFrom([]int{0, 0, 1, 2, 5, 30}).Draw(t, "offset"), // 0 = same members as before, small = overlapping, 30 = disjoint
		C: rapid.IntRange(-1, size-1).Draw(t, "ownpos"),
		D: rapid.IntRange(1, 2).Draw(t, "bump")}
}

// opGroup draws one op (or a short burst). Lists are built with rapid.SliceOfN so that rapid can
// shrink a failing history by deleting elements.
func opGroup(nmsg int, withCleanup, withInject bool) *rapid.Generator[[]op] {
	kinds := []string{"observe", "observe", "loopback", "loopback", "gossip", "gossip", "gossip", "gossip", "gossipvalid", "gossipvalid", "gossipvalid", "gossipvalid", "inbound", "inbound", "set", "quorumrun", "quorumrun", "settle", "replay", "rotate-before-observe",
		"retry", "retry-after-rotation", "storefault-quorumrun"}
	if withCleanup {
		kinds = append(kinds, "cleanup")
	}
	if withInject {
		kinds = append(kinds, "inject")
	}
	return rapid.Custom(func(t *rapid.T) []op {
		switch k := rapid.SampledFrom(kinds).Draw(t, "k"); k {
		case "observe", "inject":
			o := op{K: k, A: rapid.IntRange(0, nmsg-1).Draw(t, "m")}
			if k == "observe" && rapid.IntRange(0, 5).Draw(t, "busyqueue") == 0 {
				o.D = 1
			}
			return []op{o}
		case "loopback":
			return []op{{K: k, A: rapid.IntRange(0, 5).Draw(t, "which"), B: rapid.SampledFrom([]int{0, 0, 0, 1}).Draw(t, "keep")}}
		case "gossip":
			return []op{{K: k, A: rapid.IntRange(0, nmsg-1).Draw(t, "m"), B: rapid.OneOf(rapid.IntRange(0, 6), rapid.IntRange(0, 60)).Draw(t, "signer"),
				C: rapid.IntRange(0, len(obsKinds)-1).Draw(t, "kind"), D: rapid.IntRange(0, 600).Draw(t, "x")}}
		case "gossipvalid": // a burst of valid observations from consecutive members: makes quorum reachable
			m := rapid.IntRange(0, nmsg-1).Draw(t, "m")
			from := rapid.IntRange(0, 8).Draw(t, "from")
			cnt := rapid.IntRange(1, 14).Draw(t, "cnt")
			var out []op
			for j := 0; j < cnt; j++ {
				out = append(out, op{K: "gossip", A: m, B: from + j, C: 0})
			}
			return out
		case "quorumrun": // local observation, own signature, then valid observations from the first members
			m := rapid.IntRange(0, nmsg-1).Draw(t, "m")
			cnt := rapid.IntRange(0, 14).Draw(t, "cnt")
			out := []op{{K: "observe", A: m}}
			if rapid.Bool().Draw(t, "ownfirst") {
				out = append(out, op{K: "loopback", A: 0})
			}
			for j := 0; j < cnt; j++ {
				out = append(out, op{K: "gossip", A: m, B: 1 + j, C: 0})
			}
			return append(out, op{K: "loopback", A: 0})
		case "inbound":
			return []op{{K: k, A: rapid.IntRange(0, nmsg-1).Draw(t, "m"), B: rapid.IntRange(0, len(inboundKinds)-1).Draw(t, "kind"), C: rapid.IntRange(0, 1000).Draw(t, "seed")}}
		case "set":
			return []op{genSetOp(t)}
		case "settle":
			return []op{{K: "settle"}}
		case "rotate-before-observe": // peers signed before the node saw the message; the set is replaced; members of the new set sign; then the node observes
			m := rapid.IntRange(0, nmsg-1).Draw(t, "m")
			size := rapid.IntRange(2, 5).Draw(t, "size")
			off := rapid.SampledFrom([]int{1, 2, 30}).Draw(t, "off")
			out := []op{{K: "gossip", A: m, B: 1, C: 0}, {K: "gossip", A: m, B: 2, C: 0}, {K: "set", A: size, B: off, C: 0, D: 1}}
			// all, some or none of the new set's members have signed by the time the node observes
			for j, n := 0, rapid.OneOf(rapid.Just(size), rapid.IntRange(0, size)).Draw(t, "signed"); j < n; j++ {
				out = append(out, op{K: "gossip", A: m, B: 1 + off + j, C: 0})
			}
			return append(out, op{K: "observe", A: m}, op{K: "loopback", A: 0})
		case "retry":
			return []op{{K: "retry"}}
		case "retry-after-rotation": // an own observation stuck below quorum, the set is replaced, the retransmission timer fires, then members of the new set sign
			m := rapid.IntRange(0, nmsg-1).Draw(t, "m")
			size := rapid.IntRange(1, 5).Draw(t, "size")
			off := rapid.SampledFrom([]int{1, 2, 30}).Draw(t, "off")
			out := []op{{K: "observe", A: m}, {K: "loopback", A: 0}, {K: "set", A: size, B: off, C: rapid.IntRange(-1, 0).Draw(t, "ownpos"), D: 1}, {K: "retry"}}
			for j, n := 0, rapid.IntRange(1, size+1).Draw(t, "signed"); j < n; j++ {
				out = append(out, op{K: "gossip", A: m, B: 1 + off + j, C: 0})
			}
			return out
		case "storefault-quorumrun": // the store starts failing; a message then reaches quorum and observations keep arriving
			m := rapid.IntRange(0, nmsg-1).Draw(t, "m")
			out := []op{{K: "storefault"}, {K: "observe", A: m}, {K: "loopback", A: 0}}
			for j, n := 0, rapid.IntRange(1, 8).Draw(t, "cnt"); j < n; j++ {
				out = append(out, op{K: "gossip", A: m, B: 1 + j, C: 0})
			}
			for j, n := 0, rapid.IntRange(1, 4).Draw(t, "again"); j < n; j++ {
				out = append(out, op{K: "gossip", A: m, B: 1 + j, C: 0})
			}
			return out
		case "replay": // a member's genuine observation of one message, then its signature again under another message's digest
			m := rapid.IntRange(0, nmsg-1).Draw(t, "m")
			sgn := rapid.IntRange(0, 6).Draw(t, "signer")
			return []op{{K: "gossip", A: m + 1, B: sgn, C: 0}, {K: "gossip", A: m, B: sgn, C: obsKindIdx("other-digest")}}
		case "cleanup":
			return []op{{K: k, A: rapid.IntRange(0, 7).Draw(t, "shift")}}
		}
		return nil
	})
}

func flatten(gs [][]op) []op {
	var out []op
	for _, g := range gs {
		out = append(out, g...)
	}
	return out
}

func genOps(t *rapid.T, nmsg int, maxOps int, withCleanup, withInject bool) []op {
	var ops []op
	if rapid.IntRange(0, 9).Draw(t, "startset") > 0 {
		ops = append(ops, genSetOp(t))
	}
	return append(ops, flatten(rapid.SliceOfN(opGroup(nmsg, withCleanup, withInject), 3, maxOps).Draw(t, "ops"))...)
}

func genC01(t *rapid.T) procCase {
	nmsg := rapid.IntRange(1, 3).Draw(t, "nmsg")
	return procCase{Msgs: genMsgs(t, nmsg, false), Ops: genOps(t, nmsg, 30, rapid.IntRange(0, 4).Draw(t, "wc") == 0, true)}
}

func TestVerif_C01_Safety(t *testing.T) {
	vh.Check(t, vh.Prop[procCase]{ID: "C01", Gen: genC01, Run: func(c procCase) (*vh.Violation, vh.Outcome) {
		return runProc(c, oracles{safety: true, pfx: "C01"}, 50)
	}})
}

// ------------------------------------------------------------------ C02: confluence-shaped cases

type c02Case struct {
	Msgs   []msgSpec `json:"msgs"`
	Set    op        `json:"set"`
	Events []op      `json:"events"` // the multiset
	PermA  []int     `json:"perma"`  // two orders of it (indices into Events, any ints: ranked)
	PermB  []int     `json:"permb"`
}

func rankPerm(keys []int, n int) []int {
	idx := make([]int, n)
	for i := range idx {
		idx[i] = i
	}
	k := func(i int) int {
		if i < len(keys) {
			return keys[i]
		}
		return 0
	}
	// stable insertion sort by key: equal keys keep the original order
	for i := 1; i < n; i++ {
		for j := i; j > 0 && k(idx[j]) < k(idx[j-1]); j-- {
			idx[j], idx[j-1] = idx[j-1], idx[j]
		}
	}
	return idx
}

func genC02(t *rapid.T) c02Case {
	c := c02Case{}
	nmsg := rapid.IntRange(1, 2).Draw(t, "nmsg")
	c.Msgs = genMsgs(t, nmsg, false)
	c.Set = genSetOp(t)
	size := c.Set.A
	// the multiset: local observation(s), loopbacks, valid observations from members, duplicates, invalid traffic, optional set update
	// the node's own signature is delivered as an ordinary observation signed by its key, so that it can
	// arrive before or after the local observation ("own loopback early or late")
	ev := []op{{K: "observe", A: 0}, {K: "gossip", A: 0, B: ownKeyIdx, C: 0}}
	nvalid := rapid.IntRange(0, size).Draw(t, "nvalid")
	start := rapid.IntRange(0, size).Draw(t, "start")
	for j := 0; j < nvalid; j++ {
		ev = append(ev, op{K: "gossip", A: 0, B: 1 + c.Set.B + (start+j)%size, C: 0})
	}
	extra := rapid.IntRange(0, 6).Draw(t, "extra")
	for j := 0; j < extra; j++ {
		switch rapid.IntRange(0, 7).Draw(t, "ek") {
		case 7:
			ev = append(ev, op{K: "settle"})
		case 0:
			ev = append(ev, op{K: "observe", A: rapid.IntRange(0, nmsg-1).Draw(t, "m")})
		case 1:
			ev = append(ev, op{K: "gossip", A: rapid.IntRange(0, nmsg-1).Draw(t, "m"), B: ownKeyIdx, C: 0})
		case 2, 3:
			ev = append(ev, op{K: "gossip", A: rapid.IntRange(0, nmsg-1).Draw(t, "m"), B: rapid.IntRange(0, 25).Draw(t, "s"), C: rapid.IntRange(0, len(obsKinds)-1).Draw(t, "kind"), D: rapid.IntRange(0, 600).Draw(t, "x")})
		case 4:
			if len(ev) > 2 {
				ev = append(ev, ev[rapid.IntRange(2, len(ev)-1).Draw(t, "dup")])
			}
		case 5:
			ev = append(ev, genSetOp(t))
		case 6:
			ev = append(ev, op{K: "inbound", A: rapid.IntRange(0, nmsg-1).Draw(t, "m"), B: rapid.IntRange(0, len(inboundKinds)-1).Draw(t, "kind"), C: rapid.IntRange(0, 50).Draw(t, "seed")})
		}
	}
	c.Events = ev
	c.PermA = rapid.SliceOfN(rapid.IntRange(0, 20), len(ev), len(ev)).Draw(t, "perma")
	c.PermB = rapid.SliceOfN(rapid.IntRange(0, 20), len(ev), len(ev)).Draw(t, "permb")
	return c
}

func (c c02Case) order(keys []int) procCase {
	pc := procCase{Msgs: c.Msgs, Ops: []op{c.Set}}
	for _, i := range rankPerm(keys, len(c.Events)) {
		pc.Ops = append(pc.Ops, c.Events[i])
	}
	pc.Ops = append(pc.Ops, op{K: "flush"})
	return pc
}

func runC02(c c02Case) (*vh.Violation, vh.Outcome) {
	o := oracles{model: true, safety: true, pfx: "C02"}
	ra, va, oa := runProcR(c.order(c.PermA), o, 50)
	if va != nil {
		va.Msg = "order A: " + va.Msg
		return va, oa
	}
	rb, vb, ob := runProcR(c.order(c.PermB), o, 50)
	if vb != nil {
		vb.Msg = "order B: " + vb.Msg
		return vb, ob
	}
	out := vh.Outcome{Labels: append(oa.Labels, ob.Labels...)}
	// confluence (metamorphic, independent of the model's step-by-step predictions): with one guardian set
	// that contains the node's key and no peer VAAs, the set of published digests depends only on the multiset
	confluent := c.Set.C >= 0
	// two different messages under one id make the "stored and more than 30 s newer" rule of the local-message
	// handler order dependent by design; the statement's confluence is about one message per id
	for i := range c.Msgs {
		for j := i + 1; j < len(c.Msgs); j++ {
			a, b := c.Msgs[i], c.Msgs[j]
			if a.IDSel == b.IDSel && a.Chain == b.Chain && a.TC == b.TC && a.Seq == b.Seq && a != b {
				confluent = false
			}
		}
	}
	for _, x := range c.Events {
		if x.K == "set" || x.K == "inbound" {
			confluent = false
		}
	}
	if confluent {
		out.Labels = append(out.Labels, "confluence-checked")
		pa, pb := ra.actualPublished, rb.actualPublished
		if !reflect.DeepEqual(pa, pb) {
			return vh.V("C02/order-dependent-publication", "the same multiset of events published digests %v in one order and %v in another", keysS(pa), keysS(pb)), out
		}
	}
	// non-trivial: quorum was reached in some order with remote signatures involved
	for _, l := range out.Labels {
		if l == "quorum-with-remote-signatures" {
			out.NonTrivial = true
		}
	}
	return nil, out
}

func TestVerif_C02_Model(t *testing.T) {
	vh.Check(t, vh.Prop[c02Case]{ID: "C02", Gen: genC02, Run: runC02})
}

// the broad C01 generator judged by the C02 model as well (single order, set updates anywhere)
func TestVerif_C02_Histories(t *testing.T) {
	vh.Check(t, vh.Prop[procCase]{ID: "C02", Gen: func(t *rapid.T) procCase {
		nmsg := rapid.IntRange(1, 3).Draw(t, "nmsg")
		return procCase{Msgs: genMsgs(t, nmsg, false), Ops: genOps(t, nmsg, 30, false, true)}
	}, Run: func(c procCase) (*vh.Violation, vh.Outcome) {
		v, o := runProc(c, oracles{model: true, pfx: "C02"}, 50)
		nt := false
		for _, l := range o.Labels {
			if l == "quorum-with-remote-signatures" {
				nt = true
			}
		}
		o.NonTrivial = nt
		return v, o
	}})
}

// ------------------------------------------------------------------ C03 (observations)

func TestVerif_C03_Observations(t *testing.T) {
	vh.Check(t, vh.Prop[procCase]{ID: "C03", Gen: func(t *rapid.T) procCase {
		nmsg := rapid.IntRange(1, 3).Draw(t, "nmsg")
		return procCase{Msgs: genMsgs(t, nmsg, false), Ops: genOps(t, nmsg, 30, false, false)}
	}, Run: func(c procCase) (*vh.Violation, vh.Outcome) {
		v, o := runProc(c, oracles{gossip: true, pfx: "C03"}, 50)
		rej, acc := false, false
		for _, l := range o.Labels {
			if len(l) > 9 && l[:9] == "rejected:" {
				rej = true
			}
		}
		for _, x := range c.Ops {
			if x.K == "gossip" && x.C < 3 {
				acc = true
			}
		}
		o.NonTrivial = rej && acc
		return v, o
	}})
}

func keysS(m map[string]bool) []string {
	var out []string
	for k := range m {
		out = append(out, k[:8])
	}
	sort.Strings(out)
	return out
}

// ------------------------------------------------------------------ C04 (through the processor)

// Messages over the full field ranges (incl. sub-second timestamps), observed under generated set
// indices and store contents: the digest the node signs must be the reference digest of the message,
// whatever is stored, whichever set is current and whichever key signs.
func TestVerif_C04_Processor(t *testing.T) {
	vh.Check(t, vh.Prop[procCase]{ID: "C04", Gen: func(t *rapid.T) procCase {
		nmsg := rapid.IntRange(1, 3).Draw(t, "nmsg")
		msgs := genMsgs(t, nmsg, false)
		for i := range msgs {
			b := vh.GenBody(t, "b", 0, 2000, 0, 1) // a message may be published without any payload
			msgs[i].Nonce, msgs[i].CL, msgs[i].TC, msgs[i].PLen, msgs[i].PSeed = b.Nonce, b.CL, b.TC, b.PLen, b.PSeed
			if rapid.Bool().Draw(t, "fullseq") {
				msgs[i].Seq = b.Seq
			}
			msgs[i].Nanos = rapid.OneOf(rapid.Just(int64(0)), rapid.Int64Range(0, 999999999)).Draw(t, "nanos")
		}
		ops := genOps(t, nmsg, 25, false, true)
		if nmsg >= 2 && rapid.Bool().Draw(t, "sameid") {
			// two observations of one message id whose timestamps differ by a few seconds, the first already stored
			// (by a peer's VAA or by reaching quorum): what the node signs for the second must not depend on the store
			msgs[1].IDSel, msgs[1].Chain, msgs[1].TC, msgs[1].Seq = msgs[0].IDSel, msgs[0].Chain, msgs[0].TC, msgs[0].Seq
			msgs[1].Ts = uint32(int64(msgs[0].Ts) + int64(rapid.IntRange(-40, 40).Draw(t, "dts2")))
			pre := []op{{K: "set", A: rapid.IntRange(1, 4).Draw(t, "size"), B: 0, C: 0, D: 1}}
			if rapid.Bool().Draw(t, "viaPeer") {
				pre = append(pre, op{K: "inbound", A: 0, B: 0, C: 1})
			} else {
				pre = append(pre, op{K: "observe", A: 0}, op{K: "loopback", A: 0}, op{K: "gossip", A: 0, B: 1}, op{K: "gossip", A: 0, B: 2}, op{K: "gossip", A: 0, B: 3})
			}
			ops = append(append(pre, op{K: "observe", A: 1}), ops...)
		}
		return procCase{Msgs: msgs, Ops: ops}
	}, Run: func(c procCase) (*vh.Violation, vh.Outcome) {
		v, o := runProc(c, oracles{digest: true, pfx: "C04"}, 50)
		nobs := 0
		for _, x := range c.Ops {
			if x.K == "observe" || x.K == "inject" {
				nobs++
			}
		}
		o.NonTrivial = nobs >= 2
		return v, o
	}})
}

// ------------------------------------------------------------------ C07 (behavioural): contracts accept what the node completes

func TestVerif_C07_ContractsAccept(t *testing.T) {
	c, err := vh.LoadContracts()
	if err != nil {
		t.Fatalf("VERIF-VIOLATION harness/extractor: %v", err)
	}
	vh.Check(t, vh.Prop[procCase]{ID: "C07", Gen: func(t *rapid.T) procCase {
		nmsg := rapid.IntRange(1, 2).Draw(t, "nmsg")
		return procCase{Msgs: genMsgs(t, nmsg, false), Ops: genOps(t, nmsg, 25, false, false)}
	}, Run: func(pc procCase) (*vh.Violation, vh.Outcome) {
		v, o := runProc(pc, oracles{contracts: c, pfx: "C07"}, 50)
		nt := false
		for _, l := range o.Labels {
			if l == "contracts-accepted-published-vaa" {
				nt = true
			}
		}
		o.NonTrivial = nt
		return v, o
	}})
}
