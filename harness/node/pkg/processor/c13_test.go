//go:build verif

package processor

import (
	"context"
	"fmt"
	"reflect"
	"runtime/debug"
	"testing"
	"time"

	"github.com/alephium/wormhole-fork/node/pkg/common"
	gossipv1 "github.com/alephium/wormhole-fork/node/pkg/proto/gossip/v1"
	"github.com/alephium/wormhole-fork/node/pkg/reporter"
	"github.com/alephium/wormhole-fork/node/pkg/vaa"
	vh "github.com/alephium/wormhole-fork/node/zzverif"
	ethcommon "github.com/ethereum/go-ethereum/common"
	"go.uber.org/zap"
	"pgregory.net/rapid"
)

// ------------------------------------------------------------------ C13 (a): direct calls, adversarial inputs

func genC13(t *rapid.T) procCase {
	nmsg := rapid.IntRange(1, 3).Draw(t, "nmsg")
	msgs := genMsgs(t, nmsg, true)
	for i := range msgs {
		msgs[i].TMode = rapid.SampledFrom([]int{0, 0, 0, 1, 2, 3}).Draw(t, "tmode")
	}
	kinds := []string{"observe", "observe", "observe", "flush", "loopback", "gossip", "gossipvalid", "inbound", "set", "set", "cleanup", "cleanup", "inject", "publish"}
	group := rapid.Custom(func(t *rapid.T) []op {
		switch k := rapid.SampledFrom(kinds).Draw(t, "k"); k {
		case "observe":
			return []op{{K: k, A: rapid.IntRange(0, nmsg-1).Draw(t, "m")}}
		case "inject":
			return []op{{K: k, A: rapid.IntRange(0, nmsg-1).Draw(t, "m"), B: rapid.IntRange(0, 5).Draw(t, "gsi")}}
		case "flush":
			return []op{{K: k}}
		case "loopback":
			return []op{{K: k, A: rapid.IntRange(0, 5).Draw(t, "which"), B: rapid.IntRange(0, 1).Draw(t, "keep")}}
		case "gossip":
			return []op{{K: k, A: rapid.IntRange(0, nmsg-1).Draw(t, "m"), B: rapid.IntRange(0, 30).Draw(t, "signer"), C: rapid.IntRange(0, len(obsKinds)-1).Draw(t, "kind"), D: rapid.IntRange(0, 600).Draw(t, "x")}}
		case "gossipvalid":
			m := rapid.IntRange(0, nmsg-1).Draw(t, "m")
			cnt := rapid.IntRange(1, 6).Draw(t, "cnt")
			var out []op
			for j := 0; j < cnt; j++ {
				out = append(out, op{K: "gossip", A: m, B: j, C: 0})
			}
			return out
		case "publish": // the shortest way to a stored VAA: small set with the node in it, observe, deliver own signature, observe again
			m := rapid.IntRange(0, nmsg-1).Draw(t, "m")
			return []op{{K: "set", A: rapid.IntRange(1, 2).Draw(t, "size"), B: 0, C: 0, D: 1}, {K: "observe", A: m}, {K: "flush"}, {K: "gossip", A: m, B: 1, C: 0}}
		case "inbound":
			return []op{{K: k, A: rapid.IntRange(0, nmsg-1).Draw(t, "m"), B: rapid.IntRange(0, len(inboundKinds)-1).Draw(t, "kind"), C: rapid.IntRange(0, 1000).Draw(t, "seed")}}
		case "set":
			o := genSetOp(t)
			if rapid.IntRange(0, 9).Draw(t, "emptyset") == 0 {
				o.A = 0 // a guardian set without keys
			}
			if rapid.IntRange(0, 3).Draw(t, "sameindex") == 0 {
				o.D = 0 // (run loop only) the current index again: identical, longer, shorter or different keys
				o.B = rapid.SampledFrom([]int{0, 0, 0, 1}).Draw(t, "sameoffset")
			}
			return []op{o}
		case "cleanup":
			return []op{{K: k, A: rapid.IntRange(0, 7).Draw(t, "shift")}}
		}
		return nil
	})
	ops := flatten(rapid.SliceOfN(group, 1, 30).Draw(t, "ops"))
	return procCase{Msgs: msgs, Ops: ops}
}

func c13NonTrivial(c procCase, o vh.Outcome) bool {
	// store-then-reobserve, or an injection before a set, or a cleanup with an entry older than 30 s
	seenSet, stored := false, false
	for _, x := range c.Ops {
		switch x.K {
		case "set":
			seenSet = true
		case "inject":
			if !seenSet {
				return true
			}
		case "flush", "loopback", "gossip":
			stored = true
		case "observe":
			if stored && o.NonTrivial {
				return true
			}
		case "cleanup":
			if x.A >= 1 {
				return true
			}
		}
	}
	return false
}

func TestVerif_C13_Direct(t *testing.T) {
	vh.Check(t, vh.Prop[procCase]{ID: "C13", Gen: genC13, Run: func(c procCase) (*vh.Violation, vh.Outcome) {
		v, o := runProc(c, oracles{live: true, adv: true, pfx: "C13"}, 50)
		o.NonTrivial = c13NonTrivial(c, o)
		if v != nil && v.Fingerprint != "C13/panic" && v.Fingerprint != "C13/stopped-processing" && len(v.Fingerprint) > 4 && v.Fingerprint[:4] != "C13/" {
			// other oracles are not C13's business
			return nil, o
		}
		return v, o
	}})
}

// ------------------------------------------------------------------ C13 (b): the real Run loop fed through its channels

type runLoopEnv struct {
	*penv
	lockC     chan *common.MessagePublication
	setC      chan *common.GuardianSet
	injectC   chan *vaa.VAA
	signedInC chan *gossipv1.SignedVAAWithQuorum
	died      chan string
	cancel    context.CancelFunc
}

const stalledMsg = "Run loop stopped consuming its input channels (nothing accepted for 6 s)"

func send[T any](ch chan T, v T, died chan string) (string, bool) {
	select {
	case ch <- v:
		return "", true
	case why := <-died:
		return why, false
	case <-time.After(6 * time.Second):
		return stalledMsg, false
	}
}

func runC13Loop(c procCase) (*vh.Violation, vh.Outcome) { return runLoop(c, false) }

// runLoop drives the real Processor.Run through its channels. With safety on, everything the loop broadcasts as
// complete or stores is verified against the guardian set it names (C01/C02 through the loop's own set handling).
func runLoop(c procCase, safety bool) (*vh.Violation, vh.Outcome) {
	out := vh.Outcome{}
	d, sctx := fixtures()
	e := &penv{d: d, ctx: sctx, ownKey: ownKeyIdx, byBody: map[string]int{}, setByIdx: map[uint32]*setInfo{}, shadow: map[string][]byte{}, ids: map[string]vaa.VAAID{}}
	e.govAddr = nsAddr(0, 9)
	le := &runLoopEnv{penv: e, lockC: make(chan *common.MessagePublication), setC: make(chan *common.GuardianSet), injectC: make(chan *vaa.VAA),
		signedInC: make(chan *gossipv1.SignedVAAWithQuorum), died: make(chan string, 1)}
	e.sendC = make(chan []byte, 8192)
	e.obsvC = make(chan *gossipv1.SignedObservation) // unbuffered, as the loop must consume what we feed
	e.reqC = make(chan *gossipv1.ObservationRequest, 50)
	gst := common.NewGuardianSetState(nil)
	e.p = NewProcessor(sctx, d, le.lockC, le.setC, e.sendC, e.obsvC, e.reqC, le.injectC, le.signedInC, poolSigner{vh.Key(e.ownKey)}, gst, reporter.EventListener(zap.NewNop()), nil, govChain, e.govAddr)
	e.p.logger = zap.NewNop()
	for _, s := range c.Msgs {
		e.msgs = append(e.msgs, e.mkMsg(s))
	}
	for _, m := range e.msgs {
		e.ids[m.id.ToString()] = m.id
	}
	e.wipe()
	defer e.wipe()
	ctx, cancel := context.WithCancel(sctx)
	done := make(chan struct{})
	go func() {
		defer close(done)
		defer func() {
			if r := recover(); r != nil {
				le.died <- fmt.Sprintf("panic in Processor.Run: %v\n%s", r, debug.Stack())
			}
		}()
		_ = e.p.Run(ctx)
	}()
	defer func() {
		cancel()
		// a loop that is stuck sending to one of its own input channels is released by consuming them
		for {
			select {
			case <-done:
				return
			case <-e.obsvC:
			case <-time.After(3 * time.Second):
				return // leak it: the verdict has been reached already
			}
		}
	}()

	garbage := &gossipv1.SignedObservation{Hash: []byte{1}, Signature: []byte{2}, Addr: []byte{3}}
	barrier := func() (string, bool) { return send(e.obsvC, garbage, le.died) } // returns once the loop is back in select
	fail := func(i int, x op, why string) (*vh.Violation, vh.Outcome) {
		if why == stalledMsg {
			// not a crash, but the statement's second sentence: the node keeps processing subsequent inputs
			return vh.V("C13/run-loop-stalled", "op %d %+v: %s", i, x, why), out
		}
		return vh.V("C13/run-loop-died", "op %d %+v: %s", i, x, why), out
	}
	var cur *setInfo
	for i, x := range c.Ops {
		var why string
		ok := true
		switch x.K {
		case "set":
			size := x.A
			s := &setInfo{}
			if cur != nil {
				s.Index = cur.Index + 1
				if x.D == 0 {
					s.Index = cur.Index // the same set reported again (every EVM watcher reports it), possibly with other keys
					out.Labels = append(out.Labels, "set-index-repeated")
				}
			}
			for k := 0; k < size; k++ {
				if k == x.C {
					s.Keys = append(s.Keys, e.ownKey)
				} else {
					s.Keys = append(s.Keys, 1+x.B+k)
				}
			}
			var addrs []ethcommon.Address
			for _, k := range s.Keys {
				addrs = append(addrs, vh.Addr(k))
			}
			s.Addrs = addrs
			cur = s
			e.cur = s
			e.sets = append(e.sets, s)
			e.setByIdx[s.Index] = s
			why, ok = send(le.setC, &common.GuardianSet{Keys: addrs, Index: s.Index}, le.died)
		case "observe":
			why, ok = send(le.lockC, e.msg(x.A).pub, le.died)
		case "inject":
			m := e.msg(x.A)
			why, ok = send(le.injectC, &vaa.VAA{Version: 1, GuardianSetIndex: uint32(x.B), Timestamp: m.pub.Timestamp, Nonce: m.pub.Nonce, Sequence: m.pub.Sequence, ConsistencyLevel: m.pub.ConsistencyLevel,
				EmitterChain: m.pub.EmitterChain, TargetChain: m.pub.TargetChain, EmitterAddress: m.pub.EmitterAddress, Payload: m.pub.Payload}, le.died)
			if cur == nil {
				out.NonTrivial = true
			}
		case "gossip":
			m := e.msg(x.A)
			why, ok = send(e.obsvC, mkObservation(m, e.msg(x.A+1), x.B, obsKinds[x.C%len(obsKinds)], x.D), le.died)
		case "inbound":
			m := e.msg(x.A)
			why, ok = send(le.signedInC, &gossipv1.SignedVAAWithQuorum{Vaa: e.mkInbound(m, inboundKinds[x.B%len(inboundKinds)], uint64(x.C))}, le.died)
		case "flush", "loopback":
			// loopbacks are delivered by the processor's own goroutines in this mode; give them a moment
			time.Sleep(2 * time.Millisecond)
		case "cleanup":
			// the ticker period is 30 s; reach the same code through a barrier-protected direct call.
			// The loop is parked in select while we hold the barrier send, so there is no concurrent access.
			if w, k := barrier(); !k {
				return fail(i, x, w)
			}
			// not possible to inject a tick: covered by the direct driver
		}
		if !ok {
			return fail(i, x, why)
		}
		if w, k := barrier(); !k {
			return fail(i, x, w)
		}
		if safety {
			time.Sleep(300 * time.Microsecond) // own-signature loopbacks travel through a goroutine of the processor
			if w, k := barrier(); !k {
				return fail(i, x, w)
			}
			so, v := e.drain()
			if v != nil {
				return v, out
			}
			check := func(what string, b []byte) *vh.Violation {
				p, err := vh.RefParse(b)
				if err != nil {
					return vh.V("C01/undecodable-vaa-"+what, "op %d: %v", i, err)
				}
				named := e.setByIdx[p.GSIndex]
				if x.K == "inbound" {
					named = e.cur // a peer's VAA is judged against the node's current set
				}
				if named == nil {
					return vh.V("C01/vaa-names-unknown-set", "op %d: a %s VAA names guardian set %d, which the node never learned", i, what, p.GSIndex)
				}
				if _, err := vh.RefVerifyVAA(b, named.Addrs); err != nil {
					return vh.V("C01/"+what+"-vaa-fails-verification", "op %d %+v: a %s VAA names guardian set %d (%d members) and does not verify against it: %v", i, x, what, p.GSIndex, len(named.Addrs), err)
				}
				out.NonTrivial = true
				return nil
			}
			for _, b := range so.vaas {
				if v := check("broadcast", b); v != nil {
					return v, out
				}
			}
			for _, ch := range so.changed {
				if ch[1] == nil {
					continue
				}
				if v := check("stored", ch[1]); v != nil {
					return v, out
				}
			}
		}
		for len(e.sendC) > 4000 {
			<-e.sendC
		}
	}
	// still alive and processing?
	time.Sleep(2 * time.Millisecond)
	if w, k := barrier(); !k {
		return fail(len(c.Ops), op{K: "end"}, w)
	}
	select {
	case w := <-le.died:
		return fail(len(c.Ops), op{K: "end"}, w)
	default:
	}
	if len(c.Ops) > 3 {
		out.NonTrivial = true
	}
	return nil, out
}

// C01/C02 through the real run loop: realistic guardian-set histories (indices only grow), observations before and
// after the node's own, set updates while messages are being aggregated.
func genLoopSafety(t *rapid.T) procCase {
	nmsg := rapid.IntRange(1, 3).Draw(t, "nmsg")
	msgs := genMsgs(t, nmsg, false)
	size := rapid.IntRange(1, 7).Draw(t, "size")
	ops := []op{{K: "set", A: size, B: 0, C: rapid.IntRange(0, size-1).Draw(t, "ownpos"), D: 1}}
	group := rapid.Custom(func(t *rapid.T) []op {
		m := rapid.IntRange(0, nmsg-1).Draw(t, "m")
		switch rapid.SampledFrom([]string{"observe", "observe", "gossip", "gossip", "gossip", "gossipvalid", "set", "inbound"}).Draw(t, "k") {
		case "observe":
			return []op{{K: "observe", A: m}, {K: "flush"}}
		case "gossip":
			return []op{{K: "gossip", A: m, B: rapid.IntRange(0, 12).Draw(t, "signer"), C: rapid.SampledFrom([]int{0, 0, 0, 3, 4, 6, 7}).Draw(t, "kind"), D: rapid.IntRange(0, 600).Draw(t, "x")}}
		case "gossipvalid":
			var o []op
			for j := rapid.IntRange(0, 3).Draw(t, "from"); j < rapid.IntRange(1, 9).Draw(t, "to"); j++ {
				o = append(o, op{K: "gossip", A: m, B: j, C: 0})
			}
			return o
		case "set":
			sz := rapid.IntRange(1, 7).Draw(t, "size2")
			return []op{{K: "set", A: sz, B: rapid.SampledFrom([]int{0, 0, 1, 2, 5}).Draw(t, "offset"), C: rapid.IntRange(0, sz-1).Draw(t, "ownpos2"), D: 1}}
		}
		return []op{{K: "inbound", A: m, B: rapid.IntRange(0, len(inboundKinds)-1).Draw(t, "ikind"), C: rapid.IntRange(0, 1000).Draw(t, "seed")}}
	})
	ops = append(ops, flatten(rapid.SliceOfN(group, 2, 25).Draw(t, "ops"))...)
	return procCase{Msgs: msgs, Ops: ops}
}

func TestVerif_C01_RunLoop(t *testing.T) {
	vh.Check(t, vh.Prop[procCase]{ID: "C01", Gen: genLoopSafety, Run: func(c procCase) (*vh.Violation, vh.Outcome) { return runLoop(c, true) }})
}

func TestVerif_C13_RunLoop(t *testing.T) {
	vh.Check(t, vh.Prop[procCase]{ID: "C13", Gen: genC13, Run: runC13Loop})
}

// ------------------------------------------------------------------ C13 (c): cleanup ticks of the real Run loop while traffic arrives

// The aggregation state belongs to the Run loop's goroutine: handlers and the cleanup pass touch it without locks. The
// unit lets the loop's own ticker fire every few hundred microseconds while valid observations for new digests stream
// in. Whatever the interleaving, the loop neither dies nor stalls; run under the race detector, an access to the
// aggregation state from a second goroutine is reported even when the two accesses do not collide in time.
type c13TickCase struct {
	Entries int `json:"entries"` // aggregation entries present before the ticks start
	TickUs  int `json:"tick_us"`
	Obs     int `json:"obs"` // observations streamed while the ticker fires
}

func runC13Ticks(c c13TickCase) (*vh.Violation, vh.Outcome) {
	out := vh.Outcome{NonTrivial: c.Entries > 0 && c.Obs > 0}
	d, sctx := fixtures()
	e := &penv{d: d, ctx: sctx, ownKey: ownKeyIdx, byBody: map[string]int{}, setByIdx: map[uint32]*setInfo{}, shadow: map[string][]byte{}, ids: map[string]vaa.VAAID{}}
	e.govAddr = nsAddr(0, 9)
	setC := make(chan *common.GuardianSet)
	died := make(chan string, 1)
	e.sendC = make(chan []byte, 8192)
	e.obsvC = make(chan *gossipv1.SignedObservation)
	e.reqC = make(chan *gossipv1.ObservationRequest, 50)
	gst := common.NewGuardianSetState(nil)
	e.p = NewProcessor(sctx, d, make(chan *common.MessagePublication), setC, e.sendC, e.obsvC, e.reqC, make(chan *vaa.VAA), make(chan *gossipv1.SignedVAAWithQuorum),
		poolSigner{vh.Key(e.ownKey)}, gst, reporter.EventListener(zap.NewNop()), nil, govChain, e.govAddr)
	e.p.logger = zap.NewNop()
	ctx, cancel := context.WithCancel(sctx)
	done := make(chan struct{})
	go func() {
		defer close(done)
		defer func() {
			if r := recover(); r != nil {
				died <- fmt.Sprintf("panic in Processor.Run: %v\n%s", r, debug.Stack())
			}
		}()
		_ = e.p.Run(ctx)
	}()
	defer func() {
		cancel()
		for {
			select {
			case <-done:
				return
			case <-e.obsvC:
			case <-time.After(3 * time.Second):
				return
			}
		}
	}()
	fail := func(what, why string) (*vh.Violation, vh.Outcome) {
		if why == stalledMsg {
			return vh.V("C13/run-loop-stalled", "%s: %s", what, why), out
		}
		return vh.V("C13/run-loop-died", "%s: %s", what, why), out
	}
	addrs := []ethcommon.Address{vh.Addr(e.ownKey), vh.Addr(1), vh.Addr(2)}
	if why, ok := send(setC, &common.GuardianSet{Keys: addrs, Index: 0}, died); !ok {
		return fail("guardian set", why)
	}
	n := 0
	obs := func() *gossipv1.SignedObservation {
		n++
		dg := vh.RefDigest([]byte(fmt.Sprintf("c13-ticks-%d", n)))
		return &gossipv1.SignedObservation{Addr: vh.Addr(1).Bytes(), Hash: dg[:], Signature: vh.SignDigest(1, dg[:]), TxHash: dg[:], MessageId: "2/00/0"}
	}
	for i := 0; i < c.Entries; i++ {
		if why, ok := send(e.obsvC, obs(), died); !ok {
			return fail("filling the aggregation state", why)
		}
	}
	garbage := &gossipv1.SignedObservation{Hash: []byte{1}, Signature: []byte{2}, Addr: []byte{3}}
	if why, ok := send(e.obsvC, garbage, died); !ok {
		return fail("barrier", why)
	}
	// the loop is past the statement that created its ticker (it has received from its channels): shorten the period.
	// The ticker is found by reflection: a tree whose loop times its cleanup differently still compiles with this
	// harness, and this unit then has nothing to shorten (the 30 s period itself is C14's business).
	ticker := loopTicker(e.p)
	if ticker == nil {
		out.Inconclusive = true
		out.Labels = append(out.Labels, "inconclusive:no-cleanup-ticker-field")
		return nil, out
	}
	ticker.Reset(time.Duration(c.TickUs) * time.Microsecond)
	for i := 0; i < c.Obs; i++ {
		if why, ok := send(e.obsvC, obs(), died); !ok {
			return fail(fmt.Sprintf("observation %d of %d with the cleanup ticker at %d us and %d entries", i, c.Obs, c.TickUs, c.Entries), why)
		}
	}
	ticker.Reset(30 * time.Second)
	for k := 0; k < 2; k++ {
		if why, ok := send(e.obsvC, garbage, died); !ok {
			return fail("after the stream", why)
		}
	}
	return nil, out
}

func loopTicker(p *Processor) *time.Ticker {
	f := reflect.ValueOf(p).Elem().FieldByName("cleanup")
	if !f.IsValid() || f.Kind() != reflect.Ptr || f.IsNil() || f.Type() != reflect.TypeOf((*time.Ticker)(nil)) {
		return nil
	}
	return (*time.Ticker)(f.UnsafePointer())
}

func TestVerif_C13_RunLoopTicks(t *testing.T) {
	vh.Check(t, vh.Prop[c13TickCase]{ID: "C13", Gen: func(t *rapid.T) c13TickCase {
		return c13TickCase{Entries: rapid.SampledFrom([]int{0, 10, 300, 3000}).Draw(t, "entries"), TickUs: rapid.SampledFrom([]int{50, 200, 1000, 5000}).Draw(t, "tick"),
			Obs: rapid.IntRange(1, 600).Draw(t, "obs")}
	}, Run: runC13Ticks})
}
