//go:build verif

package processor

import (
	"bytes"
	"context"
	"crypto/ecdsa"
	"encoding/binary"
	"encoding/hex"
	"fmt"
	"os"
	"path/filepath"
	"sort"
	"sync"
	"sync/atomic"
	"time"

	"github.com/alephium/wormhole-fork/node/pkg/common"
	"github.com/alephium/wormhole-fork/node/pkg/db"
	gossipv1 "github.com/alephium/wormhole-fork/node/pkg/proto/gossip/v1"
	"github.com/alephium/wormhole-fork/node/pkg/reporter"
	"github.com/alephium/wormhole-fork/node/pkg/supervisor"
	"github.com/alephium/wormhole-fork/node/pkg/vaa"
	vh "github.com/alephium/wormhole-fork/node/zzverif"
	ethcommon "github.com/ethereum/go-ethereum/common"
	"github.com/ethereum/go-ethereum/crypto"
	"go.uber.org/zap"
	"google.golang.org/protobuf/proto"
)

// ------------------------------------------------------------------ process-wide fixtures

type poolSigner struct{ k *ecdsa.PrivateKey }

func (s poolSigner) Sign(d []byte) ([]byte, error) { return crypto.Sign(d, s.k) }
func (s poolSigner) PublicKey() ecdsa.PublicKey    { return s.k.PublicKey }

var (
	fixOnce sync.Once
	fixDB   *db.Database
	fixCtx  context.Context
	caseNo  uint64
)

var govChain = vaa.ChainID(1)

func fixtures() (*db.Database, context.Context) {
	fixOnce.Do(func() {
		dir := os.Getenv("VERIF_SCRATCH")
		if dir == "" {
			dir = os.TempDir()
		}
		dir = filepath.Join(dir, fmt.Sprintf("procdb-%d", os.Getpid()))
		_ = os.RemoveAll(dir)
		d, err := db.Open(dir)
		if err != nil {
			panic(err)
		}
		fixDB = d
		ch := make(chan context.Context, 1)
		supervisor.New(context.Background(), zap.NewNop(), func(ctx context.Context) error {
			ch <- ctx
			supervisor.Signal(ctx, supervisor.SignalHealthy)
			<-ctx.Done()
			return ctx.Err()
		})
		fixCtx = <-ch
	})
	return fixDB, fixCtx
}

// ------------------------------------------------------------------ case data

type msgSpec struct {
	IDSel int    `json:"id"`  // emitter selector inside the case's namespace; 9 = governance emitter
	Chain uint16 `json:"ch"`  // emitter chain
	TC    uint16 `json:"tc"`  // target chain
	Seq   uint64 `json:"seq"` // sequence
	Ts    uint32 `json:"ts"`
	Nanos int64  `json:"ns,omitempty"`
	Nonce uint32 `json:"nonce"`
	CL    uint8  `json:"cl"`
	PLen  int    `json:"plen"`
	PSeed uint64 `json:"pseed"`
	Tx    uint64 `json:"tx"`
	TMode int    `json:"tmode,omitempty"` // adversarial timestamps: 1 zero time.Time, 2 before 1970, 3 after 2106
}

type op struct {
	K string `json:"k"`
	A int    `json:"a"`
	B int    `json:"b,omitempty"`
	C int    `json:"c,omitempty"`
	D int    `json:"d,omitempty"`
}

type procCase struct {
	Msgs []msgSpec `json:"msgs"`
	Ops  []op      `json:"ops"`
}

// ------------------------------------------------------------------ executor state

type setInfo struct {
	Index uint32
	Keys  []int // pool key indices, in guardian order
	Addrs []ethcommon.Address
}

func (s *setInfo) has(a ethcommon.Address) bool {
	for _, x := range s.Addrs {
		if x == a {
			return true
		}
	}
	return false
}

type msgInfo struct {
	spec   msgSpec
	pub    *common.MessagePublication
	body   vh.Body
	bodyB  []byte
	digest [32]byte
	hash   string
	id     vaa.VAAID
	gov    bool
}

type stepOut struct {
	obs          []*gossipv1.SignedObservation
	vaas         [][]byte
	reqs         []*gossipv1.ObservationRequest
	changed      map[string][2][]byte // id string -> old,new
	quorumEvents [][]byte             // VAAs announced to AttestationEventReporter subscribers (VAAQuorum), re-encoded
}

type penv struct {
	p        *Processor
	d        *db.Database
	ctx      context.Context
	sendC    chan []byte
	obsvC    chan *gossipv1.SignedObservation
	reqC     chan *gossipv1.ObservationRequest
	ns       uint64
	govAddr  vaa.Address
	ownKey   int
	msgs     []*msgInfo
	byBody   map[string]int
	sets     []*setInfo
	setByIdx map[uint32]*setInfo
	cur      *setInfo
	pending  []*gossipv1.SignedObservation
	shadow   map[string][]byte // id -> stored bytes
	ids      map[string]vaa.VAAID
	events   *reporter.AttestationEventReporter
	quorumC  <-chan *vaa.VAA
	faultDB  bool // the processor's store handle was replaced by one that fails every call
	faultDir string
}

// breakStore gives the processor a store handle that has been closed: every lookup and every write fails from now on.
// The shared store the harness reads stays as it is (nothing more is written to it).
func (e *penv) breakStore() error {
	dir, err := os.MkdirTemp(os.Getenv("VERIF_SCRATCH"), "proc-faultdb-")
	if err != nil {
		return err
	}
	d2, err := db.Open(dir)
	if err != nil {
		return err
	}
	if err := d2.Close(); err != nil {
		return err
	}
	e.p.db = d2
	e.faultDB, e.faultDir = true, dir
	return nil
}

const ownKeyIdx = 0

func nsAddr(ns uint64, sel int) vaa.Address {
	var a vaa.Address
	copy(a[:], crypto.Keccak256([]byte("verif-ns"), u64b(ns), u64b(uint64(sel))))
	a[0] = 0xee // never collides with the governance emitter
	return a
}

func u64b(x uint64) []byte {
	var b [8]byte
	binary.BigEndian.PutUint64(b[:], x)
	return b[:]
}

func newEnv(c procCase, reqCap int) *penv {
	d, ctx := fixtures()
	atomic.AddUint64(&caseNo, 1)
	e := &penv{d: d, ctx: ctx, ns: 0, ownKey: ownKeyIdx,
		byBody: map[string]int{}, setByIdx: map[uint32]*setInfo{}, shadow: map[string][]byte{}, ids: map[string]vaa.VAAID{}}
	e.govAddr = nsAddr(e.ns, 9) // per-case governance emitter: ids never collide across cases sharing the store
	e.sendC = make(chan []byte, 4096)
	e.obsvC = make(chan *gossipv1.SignedObservation, 4096)
	e.reqC = make(chan *gossipv1.ObservationRequest, reqCap)
	e.events = reporter.EventListener(zap.NewNop())
	e.quorumC = e.events.Subscribe().Channels.VAAQuorumC
	gst := common.NewGuardianSetState(nil)
	e.p = NewProcessor(ctx, d, nil, nil, e.sendC, e.obsvC, e.reqC, nil, nil, poolSigner{vh.Key(e.ownKey)}, gst, e.events, nil, govChain, e.govAddr)
	e.p.logger = zap.NewNop()
	for _, s := range c.Msgs {
		e.msgs = append(e.msgs, e.mkMsg(s))
	}
	for i, m := range e.msgs {
		if _, ok := e.byBody[string(m.bodyB)]; !ok {
			e.byBody[string(m.bodyB)] = i
		}
		e.ids[m.id.ToString()] = m.id
	}
	e.wipe()
	return e
}

// wipe removes every id of the case from the shared store: cases use a fixed namespace so that a
// saved case replays bit-identically in a fresh process.
func (e *penv) wipe() {
	if e.faultDir != "" {
		_ = os.RemoveAll(e.faultDir)
		e.faultDir = ""
	}
	for _, id := range e.ids {
		if err := e.d.VerifDelete(id); err != nil {
			panic(err)
		}
	}
}

func (e *penv) mkMsg(s msgSpec) *msgInfo {
	m := &msgInfo{spec: s}
	addr := nsAddr(e.ns, s.IDSel)
	chain := vaa.ChainID(s.Chain)
	if s.IDSel == 9 {
		addr = e.govAddr
	}
	m.gov = addr == e.govAddr && chain == govChain
	ts := time.Unix(int64(s.Ts), s.Nanos)
	switch s.TMode {
	case 1:
		ts = time.Time{}
	case 2:
		ts = time.Unix(-int64(s.Ts)-1, s.Nanos)
	case 3:
		ts = time.Unix(int64(s.Ts)+(1<<32), s.Nanos)
	}
	s.Ts = uint32(ts.Unix())
	m.body = vh.Body{Timestamp: s.Ts, Nonce: s.Nonce, EmitterChain: s.Chain, TargetChain: s.TC, Emitter: [32]byte(addr), Sequence: s.Seq, CL: s.CL, Payload: vh.Expand(s.PSeed, s.PLen)}
	m.bodyB = vh.RefBody(m.body)
	m.digest = vh.RefDigest(m.bodyB)
	m.hash = hex.EncodeToString(m.digest[:])
	var tx ethcommon.Hash
	copy(tx[:], vh.Expand(s.Tx+77, 32))
	m.pub = &common.MessagePublication{TxHash: tx, Timestamp: ts, Nonce: s.Nonce, Sequence: s.Seq, ConsistencyLevel: s.CL,
		EmitterChain: chain, TargetChain: vaa.ChainID(s.TC), EmitterAddress: addr, Payload: m.body.Payload}
	m.id = vaa.VAAID{EmitterChain: chain, EmitterAddress: addr, TargetChain: vaa.ChainID(s.TC), Sequence: s.Seq}
	return m
}

func (e *penv) msg(i int) *msgInfo {
	if len(e.msgs) == 0 {
		return nil
	}
	if i < 0 {
		i = -i
	}
	return e.msgs[i%len(e.msgs)]
}

// applySet mirrors what Processor.Run does on a guardian-set update.
func (e *penv) applySet(size, offset, ownPos, bump int) *setInfo {
	if size < 1 {
		size = 1
	}
	idx := uint32(0)
	if e.cur != nil {
		if bump < 1 {
			bump = 1
		}
		idx = e.cur.Index + uint32(bump)
	}
	s := &setInfo{Index: idx}
	next := 1 + offset
	for i := 0; i < size; i++ {
		if i == ownPos {
			s.Keys = append(s.Keys, e.ownKey)
			continue
		}
		s.Keys = append(s.Keys, 1+(next-1)%(vh.PoolSize-40))
		next++
	}
	for _, k := range s.Keys {
		s.Addrs = append(s.Addrs, vh.Addr(k))
	}
	gs := &common.GuardianSet{Keys: append([]ethcommon.Address{}, s.Addrs...), Index: s.Index}
	e.p.gs = gs
	e.p.gst.Set(gs)
	e.sets = append(e.sets, s)
	e.setByIdx[s.Index] = s
	e.cur = s
	return s
}

// drain collects everything the processor emitted and diffs the store for the case's ids.
func (e *penv) drain() (*stepOut, *vh.Violation) {
	out := &stepOut{changed: map[string][2][]byte{}}
	for {
		select {
		case b := <-e.sendC:
			var g gossipv1.GossipMessage
			if err := proto.Unmarshal(b, &g); err != nil {
				return out, vh.V("harness/undecodable-gossip", "%v", err)
			}
			switch m := g.Message.(type) {
			case *gossipv1.GossipMessage_SignedObservation:
				out.obs = append(out.obs, m.SignedObservation)
			case *gossipv1.GossipMessage_SignedVaaWithQuorum:
				out.vaas = append(out.vaas, m.SignedVaaWithQuorum.Vaa)
			default:
				return out, vh.V("harness/unexpected-gossip-type", "%T", g.Message)
			}
			continue
		default:
		}
		break
	}
	for {
		select {
		case r := <-e.reqC:
			out.reqs = append(out.reqs, r)
			continue
		default:
		}
		break
	}
	for e.quorumC != nil {
		select {
		case v := <-e.quorumC:
			b, err := v.Marshal()
			if err != nil {
				return out, vh.V("harness/quorum-event-marshal", "%v", err)
			}
			out.quorumEvents = append(out.quorumEvents, b)
			continue
		default:
		}
		break
	}
	keys := make([]string, 0, len(e.ids))
	for k := range e.ids {
		keys = append(keys, k)
	}
	sort.Strings(keys)
	for _, k := range keys {
		b, err := e.d.GetSignedVAABytes(e.ids[k])
		if err == db.ErrVAANotFound {
			b = nil
		} else if err != nil {
			return out, vh.V("harness/db-error", "%v", err)
		}
		if !bytes.Equal(b, e.shadow[k]) {
			out.changed[k] = [2][]byte{e.shadow[k], b}
			e.shadow[k] = b
		}
	}
	return out, nil
}

// takeLoopbacks waits for the n own-signature loopbacks that broadcastSignature hands to a goroutine.
func (e *penv) takeLoopbacks(n int) bool {
	for i := 0; i < n; i++ {
		select {
		case o := <-e.obsvC:
			e.pending = append(e.pending, o)
		case <-time.After(10 * time.Second):
			return false
		}
	}
	return true
}

// ------------------------------------------------------------------ observation builders

// obsKindIdx returns the index of a kind in obsKinds
func obsKindIdx(k string) int {
	for i, x := range obsKinds {
		if x == k {
			return i
		}
	}
	panic("unknown observation kind " + k)
}

var obsKinds = []string{"valid", "valid", "valid", "other-digest", "wrong-addr", "claims-own-addr", "claims-member", "flip-sig", "flip-hash", "flip-addr", "short-sig", "long-sig", "recid", "empty-sig", "empty-hash", "empty-addr", "short-hash", "nil-fields", "valid-other-tx", "recid-alias"}

func mkObservation(m *msgInfo, other *msgInfo, signer int, kind string, x int) *gossipv1.SignedObservation {
	digest := m.digest[:]
	o := &gossipv1.SignedObservation{Addr: vh.Addr(signer).Bytes(), Hash: append([]byte{}, digest...), Signature: vh.SignDigest(signer, digest), TxHash: m.pub.TxHash.Bytes(), MessageId: m.id.ToString()}
	switch kind {
	case "valid":
	case "other-digest": // a perfectly valid signature, but over another digest
		d := other.digest
		if d == m.digest {
			d = vh.RefDigest(append([]byte{1}, m.bodyB...))
		}
		o.Signature = vh.SignDigest(signer, d[:])
	case "wrong-addr": // signer claims a different address
		o.Addr = vh.Addr(signer + 1).Bytes()
	case "claims-own-addr": // any key signs, but the observation claims to come from this node
		if signer == ownKeyIdx {
			signer = 1 + x%40
			o.Signature = vh.SignDigest(signer, digest)
		}
		o.Addr = vh.Addr(ownKeyIdx).Bytes()
	case "claims-member": // an outsider signs and claims a low-numbered (likely member) address
		o.Signature = vh.SignDigest(270+x%20, digest)
		o.Addr = vh.Addr(signer).Bytes()
	case "flip-sig":
		o.Signature[x%64] ^= byte(1 << (uint(x) % 8))
	case "flip-hash":
		o.Hash[x%32] ^= byte(1 << (uint(x) % 8))
	case "flip-addr":
		o.Addr[x%20] ^= byte(1 << (uint(x) % 8))
	case "short-sig":
		o.Signature = o.Signature[:64]
	case "long-sig":
		o.Signature = append(o.Signature, 0)
	case "recid":
		o.Signature[64] = byte(4 + x%252)
	case "empty-sig":
		o.Signature = []byte{}
	case "empty-hash":
		o.Hash = []byte{}
	case "empty-addr":
		o.Addr = []byte{}
	case "short-hash":
		o.Hash = o.Hash[:31]
	case "nil-fields":
		o.Signature, o.Hash, o.Addr, o.TxHash = nil, nil, nil, nil
	case "recid-alias": // the valid signature with its recovery id written the EVM way
		o.Signature[64] += 27
	case "valid-other-tx": // a valid observation whose (unsigned) transaction hash differs from the one this node saw
		o.TxHash = vh.Expand(uint64(7000+x), 32)
	}
	return o
}

// obsAcceptable is the independent accept predicate of the statement: the signature recovers
// (over the carried hash) to the claimed address and that address is in the applicable set.
func obsAcceptable(o *gossipv1.SignedObservation, applicable *setInfo) (ethcommon.Address, bool) {
	if applicable == nil || len(o.Hash) != 32 || len(o.Signature) != 65 || len(o.Addr) != 20 {
		return ethcommon.Address{}, false
	}
	a, err := vh.RefRecover(o.Hash, o.Signature)
	if err != nil {
		return ethcommon.Address{}, false
	}
	if !bytes.Equal(a.Bytes(), o.Addr) {
		return ethcommon.Address{}, false
	}
	return a, applicable.has(a)
}

// ------------------------------------------------------------------ inbound VAA builders

var inboundKinds = []string{"quorum", "quorum", "all", "quorum-1", "prev-set", "wrong-order", "dup-signer", "outsider", "garbage", "truncated", "flip-body", "other-subset", "nosigs", "index-oob", "dup-last", "swap-last-two", "pad-with-last", "quorum-1-other-index", "one-sig-other-index", "quorum-other-index"}

func subset(n, k int, seed uint64) []int {
	if k > n {
		k = n
	}
	// deterministic k-subset of [0,n): rank by keccak(seed,i)
	type r struct {
		i int
		h uint64
	}
	rs := make([]r, n)
	for i := 0; i < n; i++ {
		rs[i] = r{i, binary.BigEndian.Uint64(crypto.Keccak256(u64b(seed), u64b(uint64(i))))}
	}
	sort.Slice(rs, func(a, b int) bool { return rs[a].h < rs[b].h })
	out := make([]int, 0, k)
	for i := 0; i < k; i++ {
		out = append(out, rs[i].i)
	}
	sort.Ints(out)
	return out
}

func signedVAA(m *msgInfo, set *setInfo, gsIndex uint32, positions []int) []byte {
	var sigs []vh.RefSig
	for _, p := range positions {
		var s vh.RefSig
		s.Index = uint8(p)
		copy(s.Sig[:], vh.SignDigest(set.Keys[p], m.digest[:]))
		sigs = append(sigs, s)
	}
	return vh.RefMarshal(1, gsIndex, sigs, m.bodyB)
}

func (e *penv) mkInbound(m *msgInfo, kind string, seed uint64) []byte {
	set := e.cur
	if set == nil {
		set = &setInfo{Index: 0, Keys: []int{1, 2, 3}, Addrs: []ethcommon.Address{vh.Addr(1), vh.Addr(2), vh.Addr(3)}}
	}
	n := len(set.Keys)
	q := vh.RefQuorum(n)
	if n == 0 {
		// an empty guardian set (the loop accepts whatever the watcher reports): nobody can have signed
		switch kind {
		case "garbage", "truncated", "flip-body":
		default:
			return signedVAA(m, set, set.Index, nil)
		}
	}
	switch kind {
	case "quorum":
		return signedVAA(m, set, set.Index, subset(n, q, seed))
	case "other-subset":
		return signedVAA(m, set, set.Index, subset(n, q, seed+1))
	case "all":
		return signedVAA(m, set, set.Index, subset(n, n, seed))
	case "quorum-1":
		return signedVAA(m, set, set.Index, subset(n, q-1, seed))
	case "nosigs":
		return signedVAA(m, set, set.Index, nil)
	// the header's set index is not covered by the signatures: anyone can rewrite it. Genuine signatures of members of
	// the current set at their positions, under a header that names another set
	case "quorum-1-other-index":
		return signedVAA(m, set, set.Index+1+uint32(seed%3), subset(n, q-1, seed))
	case "one-sig-other-index":
		other := set.Index + 1
		if seed%2 == 0 && set.Index > 0 {
			other = set.Index - 1
		}
		return signedVAA(m, set, other, subset(n, 1, seed))
	case "quorum-other-index":
		return signedVAA(m, set, set.Index+1, subset(n, q, seed))
	case "prev-set":
		if len(e.sets) >= 2 {
			prev := e.sets[len(e.sets)-2]
			return signedVAA(m, prev, prev.Index, subset(len(prev.Keys), vh.RefQuorum(len(prev.Keys)), seed))
		}
		return signedVAA(m, set, set.Index, subset(n, q, seed))
	case "wrong-order":
		pos := subset(n, q, seed)
		if len(pos) >= 2 {
			pos[0], pos[len(pos)-1] = pos[len(pos)-1], pos[0]
		}
		return signedVAA(m, set, set.Index, pos)
	case "dup-signer":
		pos := subset(n, q, seed)
		if len(pos) >= 2 {
			pos[1] = pos[0]
		} else {
			pos = append(pos, pos...)
		}
		return signedVAA(m, set, set.Index, pos)
	case "dup-last": // the signer with the highest index appears twice (all of them, so that it is the last guardian of the set)
		pos := subset(n, n, seed)
		pos = append(pos, pos[len(pos)-1])
		return signedVAA(m, set, set.Index, pos)
	case "swap-last-two": // every member signs, the two highest indices in descending order
		pos := subset(n, n, seed)
		if len(pos) >= 2 {
			pos[len(pos)-1], pos[len(pos)-2] = pos[len(pos)-2], pos[len(pos)-1]
		}
		return signedVAA(m, set, set.Index, pos)
	case "pad-with-last": // fewer distinct signers than the quorum, padded to quorum length with repeats of the last guardian
		var pos []int
		for i := 0; i < q-2 && i < n-1; i++ {
			pos = append(pos, i)
		}
		for len(pos) < q {
			pos = append(pos, n-1)
		}
		return signedVAA(m, set, set.Index, pos)
	case "index-oob":
		pos := subset(n, q, seed)
		b := signedVAA(m, set, set.Index, pos)
		if len(pos) > 0 {
			b[6+66*(len(pos)-1)] = uint8(n)
		}
		return b
	case "outsider":
		pos := subset(n, q, seed)
		fake := &setInfo{Index: set.Index, Keys: append([]int{}, set.Keys...)}
		if len(pos) > 0 {
			fake.Keys[pos[int(seed)%len(pos)]] = 270 + int(seed%20)
		}
		return signedVAA(m, fake, set.Index, pos)
	case "garbage":
		return vh.Expand(seed, int(seed%300))
	case "truncated":
		b := signedVAA(m, set, set.Index, subset(n, q, seed))
		return b[:int(seed)%len(b)]
	case "flip-body":
		pos := subset(n, q, seed)
		b := signedVAA(m, set, set.Index, pos)
		off := 6 + 66*len(pos)
		b[off+int(seed)%(len(b)-off)] ^= 1
		return b
	}
	return nil
}

// ------------------------------------------------------------------ aggregation snapshot (C03)

type aggEntry struct {
	Sigs       map[ethcommon.Address]string
	Submitted  bool
	Settled    bool
	HasVAA     bool
	GS         int64
	RetryCount uint
	Source     string
	First      time.Time
	Last       time.Time
	OurMsg     string
}

func (e *penv) aggSnapshot() map[string]aggEntry {
	out := map[string]aggEntry{}
	for h, s := range e.p.state.vaaSignatures {
		if s == nil {
			continue // an entry the code under test left empty: it has to cope with that itself
		}
		a := aggEntry{Sigs: map[ethcommon.Address]string{}, Submitted: s.submitted, Settled: s.settled, HasVAA: s.ourVAA != nil, GS: -1,
			RetryCount: s.retryCount, Source: s.source, First: s.firstObserved, Last: s.lastRetry, OurMsg: string(s.ourMsg)}
		if s.gs != nil {
			a.GS = int64(s.gs.Index)
		}
		for k, v := range s.signatures {
			a.Sigs[k] = string(v)
		}
		out[h] = a
	}
	return out
}

// shiftTimes moves every recorded time of the aggregation state into the past: the only
// inputs handleCleanup derives ages from. This is the harness's virtual clock.
func (e *penv) shiftTimes(d time.Duration) {
	for _, s := range e.p.state.vaaSignatures {
		if s == nil {
			continue // an entry the code under test left empty: it has to cope with that itself
		}
		s.firstObserved = s.firstObserved.Add(-d)
		if !s.lastRetry.IsZero() {
			s.lastRetry = s.lastRetry.Add(-d)
		}
	}
}
