//go:build verif

package processor

import (
	"bytes"
	"fmt"
	"io"
	"net/http"
	"sync"
	"testing"
	"time"

	"github.com/alephium/wormhole-fork/node/pkg/common"
	"github.com/alephium/wormhole-fork/node/pkg/notify/discord"
	vh "github.com/alephium/wormhole-fork/node/zzverif"
	ethcommon "github.com/ethereum/go-ethereum/common"
	"go.uber.org/zap"
	"pgregory.net/rapid"
)

// C13 (d): the settlement pass with a notifier configured (--discordToken). When a message the node signed has not
// got every guardian's signature 30 s after it was observed, the cleanup pass hands the names of the missing guardians
// to the notifier from a goroutine of its own - a panic there cannot be recovered by anybody and ends the process.
// Guardian sets come from the governance contract, which stores whatever keys a guardian-set upgrade lists, repeated
// keys included. The notifier's Discord client talks to a transport that answers like an account without guilds.

type fakeDiscord struct {
	mu sync.Mutex
	n  int
}

func (f *fakeDiscord) RoundTrip(r *http.Request) (*http.Response, error) {
	f.mu.Lock()
	f.n++
	f.mu.Unlock()
	return &http.Response{StatusCode: 200, Status: "200 OK", Header: http.Header{"Content-Type": []string{"application/json"}},
		Body: io.NopCloser(bytes.NewReader([]byte("[]"))), Request: r, ProtoMajor: 1, ProtoMinor: 1}, nil
}

func (f *fakeDiscord) count() int { f.mu.Lock(); defer f.mu.Unlock(); return f.n }

type c13nCase struct {
	Msgs    []msgSpec `json:"msgs"`
	Keys    []int     `json:"keys"`    // pool key per position; -1 = the node's own key; repeats allowed
	Signers []int     `json:"signers"` // positions whose guardians gossip an observation
	OwnSig  bool      `json:"ownsig"`  // the node's own signature is delivered back to it
	Ages    []int     `json:"ages"`    // seconds that pass before each cleanup tick
}

func runC13n(c c13nCase) (*vh.Violation, vh.Outcome) {
	out := vh.Outcome{}
	e := newEnv(procCase{Msgs: c.Msgs}, 50)
	defer e.wipe()
	fd := &fakeDiscord{}
	e.p.notifier = discord.NewForVerif(fd, zap.NewNop())
	var v *vh.Violation
	func() {
		defer func() {
			if r := recover(); r != nil {
				v = vh.V("C13/panic", "the processor panicked with a notifier configured: %v", r)
			}
		}()
		s := &setInfo{Index: 0}
		seen := map[int]bool{}
		for _, k := range c.Keys {
			if k < 0 {
				k = e.ownKey
			}
			if seen[k] {
				out.Labels = append(out.Labels, "repeated-key-in-set")
				out.NonTrivial = true
			}
			seen[k] = true
			s.Keys = append(s.Keys, k)
			s.Addrs = append(s.Addrs, vh.Addr(k))
		}
		gs := &common.GuardianSet{Keys: append([]ethcommon.Address{}, s.Addrs...), Index: 0}
		e.p.gs = gs
		e.p.gst.Set(gs)
		e.sets, e.cur = append(e.sets, s), s
		e.setByIdx[0] = s
		for mi := range e.msgs {
			m := e.msgs[mi]
			e.p.handleMessage(e.ctx, m.pub)
			so, dv := e.drain()
			if dv != nil {
				v = dv
				return
			}
			if !e.takeLoopbacks(len(so.obs)) {
				v = vh.V("harness/loopback-missing", "own-signature loopback did not arrive")
				return
			}
			if c.OwnSig {
				for _, o := range e.pending {
					e.p.handleObservation(e.ctx, o)
				}
			}
			e.pending = nil
			for _, pos := range c.Signers {
				k := s.Keys[pos%len(s.Keys)]
				e.p.handleObservation(e.ctx, mkObservation(m, m, k, "valid", 0))
			}
			if _, dv := e.drain(); dv != nil {
				v = dv
				return
			}
		}
		for _, a := range c.Ages {
			e.shiftTimes(time.Duration(a)*time.Second + 500*time.Millisecond)
			before := fd.count()
			e.p.handleCleanup(e.ctx)
			// notifications leave from goroutines: give them a moment (a panic in one of them ends the process at once)
			for i := 0; i < 20; i++ {
				time.Sleep(500 * time.Microsecond)
				if n := fd.count(); n != before {
					out.Labels = append(out.Labels, "miss-notification-sent")
					before = n
				}
			}
			if _, dv := e.drain(); dv != nil {
				v = dv
				return
			}
		}
	}()
	if v != nil && len(v.Fingerprint) > 8 && v.Fingerprint[:8] == "harness/" {
		return v, out
	}
	return v, out
}

func TestVerif_C13_Notifier(t *testing.T) {
	vh.Check(t, vh.Prop[c13nCase]{ID: "C13", Gen: func(t *rapid.T) c13nCase {
		n := rapid.IntRange(1, 6).Draw(t, "n")
		c := c13nCase{Msgs: genMsgs(t, rapid.IntRange(1, 2).Draw(t, "nmsg"), true), OwnSig: rapid.Bool().Draw(t, "ownsig")}
		for i := range c.Msgs {
			c.Msgs[i].Seq = uint64(i)
			c.Msgs[i].IDSel = 0
		}
		own := rapid.IntRange(-1, n-1).Draw(t, "ownpos")
		for i := 0; i < n; i++ {
			if i == own {
				c.Keys = append(c.Keys, -1)
			} else {
				c.Keys = append(c.Keys, rapid.IntRange(1, 4).Draw(t, fmt.Sprintf("key%d", i))) // a small pool: repeats are common
			}
		}
		c.Signers = rapid.SliceOfN(rapid.IntRange(0, n-1), 0, n).Draw(t, "signers")
		c.Ages = rapid.SliceOfN(rapid.SampledFrom([]int{1, 31, 31, 310, 3700}), 1, 3).Draw(t, "ages")
		return c
	}, Run: runC13n})
}
