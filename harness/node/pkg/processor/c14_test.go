//go:build verif

package processor

import (
	"bytes"
	"context"
	"fmt"
	"sort"
	"testing"
	"time"

	"github.com/alephium/wormhole-fork/node/pkg/common"
	gossipv1 "github.com/alephium/wormhole-fork/node/pkg/proto/gossip/v1"
	"github.com/alephium/wormhole-fork/node/pkg/reporter"
	"github.com/alephium/wormhole-fork/node/pkg/vaa"
	vh "github.com/alephium/wormhole-fork/node/zzverif"
	"go.uber.org/zap"
	"google.golang.org/protobuf/proto"
	"pgregory.net/rapid"
)

// C14: retry / expiry schedule of aggregation entries under a virtual clock. Time passes only
// by shifting the recorded times of the entries into the past before each cleanup call.

const (
	c14Retry  = 300  // s
	c14Park   = 300  // s
	c14Done   = 3600 // s
	c14Late   = 30   // s
	c14Budget = 14400
)

type tick struct {
	Gap   int  `json:"gap"`             // seconds of virtual time before this tick
	Pre   []op `json:"pre,omitempty"`   // ops executed (at the new time) before the cleanup call
	Drain bool `json:"drain,omitempty"` // consume the observation-request queue before the tick
}

type c14Case struct {
	Msgs    []msgSpec `json:"msgs"`
	Setup   []op      `json:"setup"`
	ReqCap  int       `json:"reqcap"`
	Ticks   []tick    `json:"ticks"`
	FaultAt int       `json:"faultat,omitempty"` // k > 0: from tick k-1 on the VAA store fails every call (closed handle, dead disk)
}

type entryModel struct {
	firstV     float64 // virtual creation time
	lastRetryV float64 // virtual time of last retry, -1 = never
	retries    int
	dueMissed  int // consecutive ticks on which a retry was due but did not happen
	goneMissed int // consecutive ticks on which removal was due but did not happen
}

type c14Runner struct {
	*runner
	now     float64
	ents    map[string]*entryModel
	ownObs  map[string][4][]byte // digest -> addr, hash, sig, tx of the node's own observation
	nRetry  int
	nExpire int
}

func (cr *c14Runner) syncEntries() {
	for h, s := range cr.e.p.state.vaaSignatures {
		if s == nil {
			continue // an entry the code under test left empty: it has to cope with that itself
		}
		if _, ok := cr.ents[h]; !ok {
			cr.ents[h] = &entryModel{firstV: cr.now, lastRetryV: -1}
			// keep every age off the whole-second thresholds: entries are born 0.5 s "ago"
			s.firstObserved = s.firstObserved.Add(-500 * time.Millisecond)
		}
	}
}

func (cr *c14Runner) exec(i int, x op) *vh.Violation {
	if x.K == "cleanup" {
		return nil
	}
	// remember own observations as they are produced
	v := cr.step(i, x)
	for _, o := range cr.e.pending {
		cr.ownObs[fmt.Sprintf("%x", o.Hash)] = [4][]byte{o.Addr, o.Hash, o.Signature, o.TxHash}
	}
	cr.syncEntries()
	return v
}

func runC14(c c14Case) (*vh.Violation, vh.Outcome) {
	start := time.Now()
	jitter := false
	pc := procCase{Msgs: c.Msgs}
	e := newEnv(pc, c.ReqCap)
	defer e.wipe()
	r := &runner{e: e, o: oracles{pfx: "C14"}, model: map[string]*digestModel{}, obsIdx: map[string]map[uint32]bool{}, labels: map[string]bool{}, actualPublished: map[string]bool{}, hasClean: true}
	cr := &c14Runner{runner: r, ents: map[string]*entryModel{}, ownObs: map[string][4][]byte{}}
	out := vh.Outcome{}
	fin := func(v *vh.Violation) (*vh.Violation, vh.Outcome) {
		for l := range r.labels {
			out.Labels = append(out.Labels, l)
		}
		sort.Strings(out.Labels)
		out.NonTrivial = cr.nRetry > 0 && cr.nExpire > 0
		if jitter && v != nil {
			// wall-clock jitter could have flipped a comparison: never report such a case
			out.Inconclusive = true
			return nil, out
		}
		return v, out
	}
	lastShift := start
	for i, x := range c.Setup {
		if v := cr.exec(i, x); v != nil {
			return fin(nil) // setup violations are other properties' business
		}
	}
	for ti, tk := range c.Ticks {
		gap := tk.Gap
		if gap < 1 {
			gap = 1
		}
		cr.now += float64(gap)
		if c.FaultAt > 0 && ti == c.FaultAt-1 && !e.faultDB {
			if err := e.breakStore(); err != nil {
				return fin(vh.V("harness/store-fault", "%v", err))
			}
			r.label("store-failing")
		}
		// the real clock keeps running underneath: absorb what elapsed since the previous shift so that
		// every age the code computes is the virtual age plus at most a few milliseconds
		tickStart := time.Now()
		elapsed := tickStart.Sub(lastShift)
		lastShift = tickStart
		if elapsed > 300*time.Millisecond {
			jitter = true
		}
		e.shiftTimes(time.Duration(gap)*time.Second - elapsed)
		for i, x := range tk.Pre {
			if v := cr.exec(1000+i, x); v != nil {
				return fin(nil)
			}
		}
		if tk.Drain {
			for len(e.reqC) > 0 {
				<-e.reqC
			}
		}
		queued := len(e.reqC)
		queueRoom := cap(e.reqC) - queued
		// classification before the tick
		type cls struct {
			kind   string
			stored bool
		}
		pre := map[string]cls{}
		for h, s := range e.p.state.vaaSignatures {
			if s == nil {
				continue // an entry the code under test left empty: it has to cope with that itself
			}
			k := "parked"
			switch {
			case s.submitted:
				k = "done"
			case s.ourMsg != nil:
				k = "signed"
			}
			st := false
			if s.ourVAA != nil {
				id := fmt.Sprintf("%d/%s/%d/%d", s.ourVAA.EmitterChain, s.ourVAA.EmitterAddress, s.ourVAA.TargetChain, s.ourVAA.Sequence)
				st = e.shadow[id] != nil
			}
			pre[h] = cls{k, st}
		}
		tickDone := make(chan struct{})
		go func() { e.p.handleCleanup(e.ctx); close(tickDone) }()
		select {
		case <-tickDone:
		case <-time.After(5 * time.Second):
			return fin(vh.V("C14/tick-blocked", "tick %d: cleanup did not return within 5 s (request queue room %d)", ti, queueRoom))
		}
		if time.Since(tickStart) > 300*time.Millisecond {
			jitter = true
		}
		so, v := e.drain()
		if v != nil {
			return fin(nil)
		}
		if len(so.vaas) != 0 || len(so.changed) != 0 {
			return fin(vh.V("C14/cleanup-published", "tick %d published or stored a VAA", ti))
		}
		retried := map[string]int{}
		for _, o := range so.obs {
			h := fmt.Sprintf("%x", o.Hash)
			retried[h]++
			own, ok := cr.ownObs[h]
			if !ok || !bytes.Equal(own[0], o.Addr) || !bytes.Equal(own[2], o.Signature) || !bytes.Equal(own[3], o.TxHash) {
				return fin(vh.V("C14/rebroadcast-not-original", "tick %d re-broadcast an observation for %s that is not the node's original observation", ti, h[:8]))
			}
		}
		reqFor := map[string]int{}
		if len(so.reqs) < queued {
			return fin(vh.V("harness/queue-accounting", "queue shrank during a tick"))
		}
		for _, rq := range so.reqs[queued:] { // requests queued before the tick are not this tick's
			reqFor[fmt.Sprintf("%d/%x", rq.ChainId, rq.TxHash)]++
		}
		wantReq := map[string]int{}
		nDueReq := 0
		hashes := make([]string, 0, len(pre))
		for h := range pre {
			hashes = append(hashes, h)
		}
		sort.Strings(hashes)
		for _, h := range hashes {
			k := pre[h]
			m := cr.ents[h]
			_, alive := e.p.state.vaaSignatures[h]
			if e.faultDB && k.stored {
				// a quorum VAA is in the store but the store cannot be asked: keeping the entry and letting it go are both fine
				if !alive {
					delete(cr.ents, h)
				}
				if retried[h] > 0 { // a retry comes with its re-observation request
					for _, mi := range e.msgs {
						if mi.hash == h {
							wantReq[fmt.Sprintf("%d/%x", uint32(mi.pub.EmitterChain), cr.ownObs[h][3])]++
							nDueReq++
						}
					}
					if st := e.p.state.vaaSignatures[h]; st != nil {
						st.lastRetry = st.lastRetry.Add(-500 * time.Millisecond)
					}
				}
				continue
			}
			age := cr.now - m.firstV + 0.5
			switch {
			case k.kind == "signed" && !k.stored:
				sinceRetry := 1e18
				if m.lastRetryV >= 0 {
					sinceRetry = cr.now - m.lastRetryV + 0.5
				}
				due := age >= c14Retry && sinceRetry >= c14Retry && m.retries < c14Budget
				if retried[h] > 0 {
					cr.nRetry++
					r.label("retry")
					if retried[h] > 1 {
						return fin(vh.V("C14/retry-duplicated", "tick %d re-broadcast the observation of %s %d times", ti, h[:8], retried[h]))
					}
					if age < c14Retry {
						return fin(vh.V("C14/retry-too-early", "tick %d retried %s only %.1f s after it was first observed", ti, h[:8], age))
					}
					if sinceRetry < c14Retry {
						return fin(vh.V("C14/retry-too-early", "tick %d retried %s only %.0f s after the previous retry", ti, h[:8], sinceRetry))
					}
					if m.retries >= c14Budget {
						return fin(vh.V("C14/retry-after-budget", "tick %d retried %s after %d retries", ti, h[:8], m.retries))
					}
					m.retries++
					m.lastRetryV = cr.now
					m.dueMissed = 0
					// like creation times, keep the recorded retry time 0.5 s off the whole-second grid
					if st := e.p.state.vaaSignatures[h]; st != nil {
						st.lastRetry = st.lastRetry.Add(-500 * time.Millisecond)
					}
					var msg *msgInfo
					for _, mi := range e.msgs {
						if mi.hash == h {
							msg = mi
						}
					}
					if msg != nil {
						wantReq[fmt.Sprintf("%d/%x", uint32(msg.pub.EmitterChain), cr.ownObs[h][3])]++
						nDueReq++
					}
				} else if due {
					m.dueMissed++
					if m.dueMissed >= 2 {
						return fin(vh.V("C14/retry-overdue", "tick %d: entry %s (signed, no quorum, not stored) has been due for a retry for %d ticks (age %.0f s, %.0f s since last retry, %d retries so far, queue room %d)",
							ti, h[:8], m.dueMissed, age, sinceRetry, m.retries, queueRoom))
					}
				}
				if !alive {
					if m.retries < c14Budget {
						return fin(vh.V("C14/signed-entry-dropped-before-budget", "tick %d removed %s after only %d retries (age %.0f s) although no quorum VAA is stored", ti, h[:8], m.retries, age))
					}
					cr.nExpire++
					r.label("expired-after-budget")
					delete(cr.ents, h)
				} else if m.retries >= c14Budget {
					m.goneMissed++
					if m.goneMissed >= 2 {
						return fin(vh.V("C14/entry-outlives-budget", "tick %d: %s still present %d ticks after its retry budget was spent", ti, h[:8], m.goneMissed))
					}
				}
			case k.kind == "signed" && k.stored:
				if retried[h] > 0 && age > c14Late {
					// allowed only on the first tick after it became late? The statement lets stored entries go; a retry is harmless but unexpected
					r.label("retry-of-stored")
				}
				if !alive {
					cr.nExpire++
					r.label("expired-late")
					delete(cr.ents, h)
				} else if age > c14Late {
					m.goneMissed++
					if m.goneMissed >= 2 {
						return fin(vh.V("C14/late-entry-not-removed", "tick %d: %s has a stored quorum VAA and is %.0f s old but is still aggregated", ti, h[:8], age))
					}
				}
			case k.kind == "parked":
				if retried[h] > 0 {
					return fin(vh.V("C14/rebroadcast-not-original", "tick %d re-broadcast for a parked entry", ti))
				}
				if !alive {
					if age < 240 {
						return fin(vh.V("C14/parked-entry-dropped-early", "tick %d removed parked signatures for %s after %.0f s", ti, h[:8], age))
					}
					cr.nExpire++
					r.label("expired-parked")
					delete(cr.ents, h)
				} else if age >= c14Park {
					m.goneMissed++
					if m.goneMissed >= 2 {
						return fin(vh.V("C14/parked-entry-not-removed", "tick %d: parked signatures for %s are %.0f s old and still present after %d due ticks", ti, h[:8], age, m.goneMissed))
					}
				}
			case k.kind == "done":
				if retried[h] > 0 {
					return fin(vh.V("C14/retry-of-completed", "tick %d re-broadcast the observation of a completed entry", ti))
				}
				if !alive {
					if age < 3000 {
						return fin(vh.V("C14/completed-entry-dropped-early", "tick %d removed completed entry %s after %.0f s", ti, h[:8], age))
					}
					cr.nExpire++
					r.label("expired-completed")
					delete(cr.ents, h)
				} else if age >= c14Done {
					m.goneMissed++
					if m.goneMissed >= 2 {
						return fin(vh.V("C14/completed-entry-not-removed", "tick %d: completed entry %s is %.0f s old and still present", ti, h[:8], age))
					}
				}
			}
		}
		// observation requests: exactly one per retry while the queue has room, never for anything else
		total := 0
		for k, n := range reqFor {
			total += n
			if n > wantReq[k] {
				return fin(vh.V("C14/unexpected-observation-request", "tick %d issued %d re-observation requests for %s, retries due for it: %d", ti, n, k, wantReq[k]))
			}
		}
		if total < nDueReq && total < queueRoom {
			return fin(vh.V("C14/observation-request-missing", "tick %d retried %d entries but queued only %d re-observation requests although the queue had room for %d", ti, nDueReq, total, queueRoom))
		}
		if nDueReq > queueRoom {
			r.label("request-queue-full-during-retry")
		}
		// put back the requests we drained for inspection only if the script wants an undrained queue
		if !tk.Drain {
			for _, rq := range so.reqs {
				select {
				case e.reqC <- rq:
				default:
				}
			}
		}
		cr.syncEntries()
	}
	return fin(nil)
}

func genC14(t *rapid.T) c14Case {
	c := c14Case{}
	nmsg := rapid.IntRange(1, 4).Draw(t, "nmsg")
	c.Msgs = genMsgs(t, nmsg, false)
	for i := range c.Msgs { // distinct ids so that stored VAAs belong to one message
		c.Msgs[i].Seq = uint64(i)
		c.Msgs[i].IDSel = 0
	}
	size := rapid.IntRange(2, 7).Draw(t, "size")
	c.Setup = []op{{K: "set", A: size, B: 0, C: rapid.IntRange(0, size-1).Draw(t, "ownpos"), D: 1}}
	state := func(t *rapid.T, m int) []op {
		switch rapid.SampledFrom([]string{"signed", "signed", "signed", "parked", "parked-many", "done", "late", "none", "peer-first", "rotate"}).Draw(t, "state") {
		case "signed": // observed, own signature delivered, below quorum
			return []op{{K: "observe", A: m}, {K: "loopback", A: 0}}
		case "peer-first": // a peer's observation (naming another transaction) arrives before the node's own
			return []op{{K: "gossip", A: m, B: 1, C: obsKindIdx("valid-other-tx"), D: rapid.IntRange(0, 50).Draw(t, "otx")}, {K: "observe", A: m}, {K: "loopback", A: 0}}
		case "rotate": // the guardian set is replaced while entries are pending
			return []op{{K: "set", A: rapid.IntRange(2, 7).Draw(t, "size2"), B: rapid.IntRange(0, 3).Draw(t, "off"), C: rapid.IntRange(0, 1).Draw(t, "ownpos2"), D: 1}}
		case "parked":
			return []op{{K: "gossip", A: m, B: 1, C: 0}}
		case "parked-many": // the other guardians all signed a message this node never observed (a quorum without it, from four members on)
			var out []op
			for j := 1; j < size; j++ {
				out = append(out, op{K: "gossip", A: m, B: j, C: 0})
			}
			return out
		case "done":
			out := []op{{K: "observe", A: m}, {K: "loopback", A: 0}}
			for j := 0; j < size; j++ {
				out = append(out, op{K: "gossip", A: m, B: j, C: 0})
			}
			return out
		case "late": // the cluster finished without us: a peer VAA is stored, then we observe
			return []op{{K: "inbound", A: m, B: 0, C: 1}, {K: "observe", A: m}, {K: "loopback", A: 0}}
		}
		return nil
	}
	for m := 0; m < nmsg; m++ {
		c.Setup = append(c.Setup, state(t, m)...)
	}
	c.ReqCap = rapid.SampledFrom([]int{0, 1, 2, 50, 50, 50}).Draw(t, "reqcap")
	gapGen := rapid.OneOf(rapid.Just(30), rapid.Just(30), rapid.IntRange(1, 60), rapid.IntRange(1, 400), rapid.SampledFrom([]int{299, 300, 301, 600, 900, 1500, 3599, 3600, 3601, 36000}))
	tickGen := rapid.Custom(func(t *rapid.T) tick {
		tk := tick{Gap: gapGen.Draw(t, "gap"), Drain: rapid.IntRange(0, 3).Draw(t, "drain") > 0}
		if rapid.IntRange(0, 5).Draw(t, "pre") == 0 {
			tk.Pre = state(t, rapid.IntRange(0, nmsg-1).Draw(t, "m"))
		}
		return tk
	})
	c.Ticks = rapid.SliceOfN(tickGen, 3, 60).Draw(t, "ticks")
	if rapid.IntRange(0, 3).Draw(t, "storefault") == 0 {
		c.FaultAt = rapid.IntRange(1, len(c.Ticks)).Draw(t, "faultat")
	}
	return c
}

func TestVerif_C14_Schedule(t *testing.T) {
	vh.Check(t, vh.Prop[c14Case]{ID: "C14", Gen: genC14, Run: runC14})
}

// One deterministic long history: a single signed entry ticked every 5 minutes until the
// retry budget is exhausted; it must be retried exactly budget times and then disappear.
func TestVerif_C14_Budget(t *testing.T) {
	pl := vh.NewPlain(t, "C14")
	defer pl.Flush()
	mk := func(gap, reqcap int) c14Case {
		c := c14Case{Msgs: []msgSpec{{IDSel: 0, Chain: 2, TC: 0, Seq: 1, Ts: 1700000000, PLen: 8, PSeed: 1}}, ReqCap: reqcap,
			Setup: []op{{K: "set", A: 3, B: 0, C: 0, D: 1}, {K: "observe", A: 0}, {K: "loopback", A: 0}}}
		n := (c14Budget+5)*((300+gap-1)/gap) + 10
		for i := 0; i < n; i++ {
			c.Ticks = append(c.Ticks, tick{Gap: gap, Drain: reqcap > 0})
		}
		return c
	}
	for _, cfg := range [][2]int{{300, 50}, {150, 50}, {300, 0}, {301, 1}, {302, 50}, {303, 50}, {304, 50}} {
		c := mk(cfg[0], cfg[1])
		switch cfg[0] {
		case 304: // another guardian holds the same stuck message and keeps re-broadcasting its observation between this node's retries
			for i := range c.Ticks {
				if i%3 == 1 {
					c.Ticks[i].Pre = []op{{K: "gossip", A: 0, B: 1, C: 0}}
				}
			}
		case 302: // the watcher answers the node's re-observation requests: the same message is observed again between retries
			for i := range c.Ticks {
				if i%7 == 3 {
					c.Ticks[i].Pre = []op{{K: "observe", A: 0}, {K: "loopback", A: 0}}
				}
			}
		case 303: // long stalls between ticks (the processor blocked, the process suspended): a stall is not a retry
			for i := range c.Ticks {
				if i%100 == 50 {
					c.Ticks[i].Gap = 43200
				}
			}
		}
		// runC14 discards slow cases as inconclusive; this one is long by design, so judge it directly
		v, o := runC14Long(c)
		pl.Record(map[string]int{"gap": cfg[0], "reqcap": cfg[1], "ticks": len(c.Ticks)}, vh.Outcome{NonTrivial: true, Labels: o.Labels})
		if v != nil {
			pl.Violate(v, c)
		}
	}
}

// runC14Long is runC14 without the jitter guard: with a 300 s grid and 0.5 s offsets no
// comparison is within 100 ms of a threshold unless the whole run takes minutes.
func runC14Long(c c14Case) (*vh.Violation, vh.Outcome) {
	// the guard only turns violations of slow cases into "inconclusive"; re-run logic shared
	v, o := runC14(c)
	if o.Inconclusive {
		o.Labels = append(o.Labels, "slow-case")
	}
	return v, o
}

// C14 through the real run loop: the schedule is driven by the loop's 30 s cleanup ticks, and those must keep coming
// while gossip keeps arriving. One entry the node signed six minutes ago waits for its retry; observations arrive at
// a generated pace (always well under 30 s apart) until the first tick is due. The hard-coded period makes this the
// one unit that has to wait in real time (about 31 s).
func TestVerif_C14_RunLoopTicks(t *testing.T) {
	pl := vh.NewPlain(t, "C14")
	defer pl.Flush()
	type tc struct {
		TrafficMs int `json:"traffic_every_ms"`
	}
	cases := []tc{{700}}
	if vh.Thorough() {
		cases = []tc{{50}, {700}, {5000}}
	}
	var rc tc
	if pl.ReplayCase(&rc) {
		cases = []tc{rc}
	}
	results := make(chan *vh.Violation, len(cases))
	for _, c := range cases {
		go func(c tc) {
			d, sctx := fixtures()
			e := &penv{d: d, ctx: sctx, ownKey: ownKeyIdx, byBody: map[string]int{}, setByIdx: map[uint32]*setInfo{}, shadow: map[string][]byte{}, ids: map[string]vaa.VAAID{}}
			e.govAddr = nsAddr(0, 9)
			lockC := make(chan *common.MessagePublication)
			setC := make(chan *common.GuardianSet)
			injectC := make(chan *vaa.VAA)
			signedInC := make(chan *gossipv1.SignedVAAWithQuorum)
			e.sendC = make(chan []byte, 8192)
			e.obsvC = make(chan *gossipv1.SignedObservation, 64)
			e.reqC = make(chan *gossipv1.ObservationRequest, 50)
			gst := common.NewGuardianSetState(nil)
			created := time.Now()
			e.p = NewProcessor(sctx, d, lockC, setC, e.sendC, e.obsvC, e.reqC, injectC, signedInC, poolSigner{vh.Key(e.ownKey)}, gst, reporter.EventListener(zap.NewNop()), nil, govChain, e.govAddr)
			e.p.logger = zap.NewNop()
			// state before the loop starts: a set of three with the node in it, one message observed six minutes ago
			ms := msgSpec{IDSel: 0, Chain: 2, TC: 0, Seq: uint64(900000 + c.TrafficMs), Ts: 1700000000, PLen: 8, PSeed: uint64(c.TrafficMs)}
			m := e.mkMsg(ms)
			e.msgs = append(e.msgs, m)
			e.ids[m.id.ToString()] = m.id
			e.applySet(3, 0, 0, 1)
			e.p.handleMessage(sctx, m.pub)
			for _, s := range e.p.state.vaaSignatures {
				s.firstObserved = s.firstObserved.Add(-6 * time.Minute)
				s.settled = true // the 30 s settlement pass is behind it: the next tick is a retry tick
			}
			for len(e.sendC) > 0 {
				<-e.sendC
			}
			ctx, cancel := context.WithCancel(sctx)
			done := make(chan struct{})
			go func() { defer close(done); _ = e.p.Run(ctx) }()
			defer func() { cancel(); <-done }()
			garbage := &gossipv1.SignedObservation{Hash: []byte{1}, Signature: []byte{2}, Addr: []byte{3}}
			retried := false
			deadline := created.Add(50 * time.Second)
			next := time.Now()
			for time.Now().Before(deadline) && !retried {
				if time.Now().After(next) {
					select {
					case e.obsvC <- garbage:
					default:
					}
					next = next.Add(time.Duration(c.TrafficMs) * time.Millisecond)
				}
				select {
				case b := <-e.sendC:
					var g gossipv1.GossipMessage
					if proto.Unmarshal(b, &g) == nil && g.GetSignedObservation() != nil {
						retried = true
					}
				case <-e.reqC:
					retried = true
				case <-time.After(5 * time.Millisecond):
				}
			}
			if !retried {
				results <- vh.V("C14/no-cleanup-tick-under-traffic", "observations arrived every %d ms for %v after the processor was created: no cleanup tick re-broadcast the six-minute-old pending observation or asked for its re-observation (the tick period is 30 s)", c.TrafficMs, time.Since(created).Round(time.Second))
				return
			}
			results <- nil
		}(c)
	}
	for i, c := range cases {
		v := <-results
		_ = i
		pl.Record(c, vh.Outcome{NonTrivial: true, Labels: []string{"run-loop-tick"}})
		if v != nil {
			pl.Violate(v, c)
		}
	}
}
