//go:build verif

package common

import (
	"fmt"
	"sync"
	"testing"
	"time"

	gossipv1 "github.com/alephium/wormhole-fork/node/pkg/proto/gossip/v1"
	vh "github.com/alephium/wormhole-fork/node/zzverif"
	"github.com/libp2p/go-libp2p/core/peer"
	"pgregory.net/rapid"
)

// C03 (table bound under concurrent stores): verified heartbeats of one guardian arriving from many p2p nodes
// at once - with the subscriber of the update channel reading slowly, quickly or not at all - never leave more
// than MaxNodesPerGuardian node entries for that guardian, and what SetHeartbeat reported is what the table holds.

type c03hbCase struct {
	Prefill  int    `json:"prefill"`  // entries stored one after the other before the burst
	Burst    int    `json:"burst"`    // concurrent stores of distinct new nodes
	Repeat   int    `json:"repeat"`   // concurrent stores re-using prefilled node ids
	Consumer string `json:"consumer"` // none | buffered | slow | stalled-then-drained
	Guard    int    `json:"guard"`
}

func runC03hbOnce(c c03hbCase) (*vh.Violation, vh.Outcome) {
	out := vh.Outcome{NonTrivial: c.Prefill+c.Burst > MaxNodesPerGuardian && c.Prefill < MaxNodesPerGuardian}
	out.Labels = append(out.Labels, "consumer:"+c.Consumer)
	var updateC chan *gossipv1.Heartbeat
	stopC := make(chan struct{})
	var cw sync.WaitGroup
	release := make(chan struct{})
	released := false
	switch c.Consumer {
	case "buffered":
		updateC = make(chan *gossipv1.Heartbeat, 1024)
	case "slow", "stalled-then-drained":
		updateC = make(chan *gossipv1.Heartbeat)
		cw.Add(1)
		go func() {
			defer cw.Done()
			if c.Consumer == "stalled-then-drained" {
				select {
				case <-release:
				case <-stopC:
					return
				}
			}
			for {
				select {
				case <-updateC:
					if c.Consumer == "slow" {
						time.Sleep(50 * time.Microsecond)
					}
				case <-stopC:
					return
				}
			}
		}()
	}
	defer func() { close(stopC); cw.Wait() }()
	st := NewGuardianSetState(updateC)
	addr := vh.Addr(c.Guard)
	if c.Consumer == "stalled-then-drained" && c.Prefill > 0 {
		// prefilling needs the subscriber
		close(release)
		released = true
	}
	accepted := map[string]bool{}
	for i := 0; i < c.Prefill; i++ {
		id := fmt.Sprintf("node-%d", i)
		if err := st.SetHeartbeat(addr, peer.ID(id), &gossipv1.Heartbeat{NodeName: id}); err == nil {
			accepted[id] = true
		}
	}
	var mu sync.Mutex
	var wg sync.WaitGroup
	start := make(chan struct{})
	store := func(id string) {
		defer wg.Done()
		<-start
		if err := st.SetHeartbeat(addr, peer.ID(id), &gossipv1.Heartbeat{NodeName: id}); err == nil {
			mu.Lock()
			accepted[id] = true
			mu.Unlock()
		}
	}
	for i := 0; i < c.Burst; i++ {
		wg.Add(1)
		go store(fmt.Sprintf("node-%d", c.Prefill+i))
	}
	for i := 0; i < c.Repeat && c.Prefill > 0; i++ {
		wg.Add(1)
		go store(fmt.Sprintf("node-%d", i%c.Prefill))
	}
	close(start)
	if !released {
		time.Sleep(300 * time.Microsecond) // let the burst pile up behind the subscriber that is not reading yet
		close(release)
	}
	doneC := make(chan struct{})
	go func() { wg.Wait(); close(doneC) }()
	select {
	case <-doneC:
	case <-time.After(10 * time.Second):
		out.Inconclusive = true
		return nil, out
	}
	table := st.LastHeartbeat(addr)
	if len(table) > MaxNodesPerGuardian {
		return vh.V("C03/heartbeat-table-exceeds-cap", "%d node entries for one guardian after %d sequential and %d concurrent stores (cap %d, update subscriber: %s)", len(table), c.Prefill, c.Burst, MaxNodesPerGuardian, c.Consumer), out
	}
	for id := range accepted {
		if _, ok := table[peer.ID(id)]; !ok {
			return vh.V("C03/accepted-heartbeat-not-stored", "SetHeartbeat reported success for %s but the table does not hold it", id), out
		}
	}
	for id := range table {
		if !accepted[string(id)] {
			return vh.V("C03/refused-heartbeat-stored", "SetHeartbeat refused %s but the table holds it", string(id)), out
		}
	}
	return nil, out
}

// the interleaving is the scheduler's: every case is executed a number of times
func runC03hb(c c03hbCase) (*vh.Violation, vh.Outcome) {
	var out vh.Outcome
	for r := 0; r < 15; r++ {
		v, o := runC03hbOnce(c)
		out = o
		if v != nil || o.Inconclusive {
			return v, o
		}
	}
	return nil, out
}

func TestVerif_C03_HeartbeatTableConcurrent(t *testing.T) {
	vh.Check(t, vh.Prop[c03hbCase]{ID: "C03", Gen: func(t *rapid.T) c03hbCase {
		return c03hbCase{Prefill: rapid.OneOf(rapid.IntRange(0, MaxNodesPerGuardian), rapid.IntRange(MaxNodesPerGuardian-3, MaxNodesPerGuardian)).Draw(t, "prefill"),
			Burst: rapid.IntRange(2, 24).Draw(t, "burst"), Repeat: rapid.IntRange(0, 4).Draw(t, "repeat"),
			Consumer: rapid.SampledFrom([]string{"none", "buffered", "slow", "slow", "stalled-then-drained", "stalled-then-drained"}).Draw(t, "consumer"), Guard: rapid.IntRange(0, 20).Draw(t, "guard")}
	}, Run: runC03hb})
}
