//go:build verif

package supervisor

import (
	"os"
	"runtime"
	"context"
	"errors"
	"fmt"
	"sort"
	"sync"
	"sync/atomic"
	"testing"
	"time"

	vh "github.com/alephium/wormhole-fork/node/zzverif"
	"go.uber.org/zap"
	"pgregory.net/rapid"
)

// C18: generated supervision trees with instrumented services. Every instance counts itself in
// and out; the history of enter / exit / cancel-seen / failure events is judged afterwards.

type behavior struct {
	Kind  string `json:"kind"`  // run | error | nil | panic | wrapped-canceled | done
	Delay int    `json:"delay"` // ms before failing (failure kinds)
	Lat   int    `json:"lat"`   // ms between seeing cancellation and returning (run kind)
}

type svc struct {
	Name   string     `json:"name"`
	Beh    []behavior `json:"beh"`    // per incarnation; the last one repeats
	Groups [][]svc    `json:"groups"` // children, by supervision group
}

type c18Case struct {
	Root  svc `json:"root"`
	RunMs int `json:"runms"`
	// SlowBackoff: restarts wait 40..180 ms instead of 0.5..7 ms, so that the cancel is likely to fall into a back-off
	// and a restart that ignores the cancel shows up far beyond any scheduling latency
	SlowBackoff bool `json:"slowbackoff,omitempty"`
}

type event struct {
	t    time.Duration
	dn   string
	kind string // enter | exit | cancel-seen | fail | done
	inc  int
}

type recorder struct {
	mu      sync.Mutex
	start   time.Time
	events  []event
	running map[string]*int32
	incs    map[string]int
	overlap []string
	slow    bool
}

func (r *recorder) add(dn, kind string, inc int) {
	r.mu.Lock()
	r.events = append(r.events, event{time.Since(r.start), dn, kind, inc})
	r.mu.Unlock()
}

func (r *recorder) counter(dn string) *int32 {
	r.mu.Lock()
	defer r.mu.Unlock()
	c := r.running[dn]
	if c == nil {
		c = new(int32)
		r.running[dn] = c
	}
	return c
}

func (r *recorder) enter(dn string) int {
	c := r.counter(dn)
	n := atomic.AddInt32(c, 1)
	r.mu.Lock()
	r.incs[dn]++
	inc := r.incs[dn]
	if n > 1 {
		r.overlap = append(r.overlap, fmt.Sprintf("%s: %d instances at once (incarnation %d, t=%v)", dn, n, inc, time.Since(r.start)))
	}
	r.events = append(r.events, event{time.Since(r.start), dn, "enter", inc})
	r.mu.Unlock()
	return inc
}

func (r *recorder) exit(dn string, inc int) {
	r.add(dn, "exit", inc)
	atomic.AddInt32(r.counter(dn), -1)
}

func (r *recorder) anyRunning() bool {
	r.mu.Lock()
	defer r.mu.Unlock()
	for _, c := range r.running {
		if atomic.LoadInt32(c) > 0 {
			return true
		}
	}
	return false
}

func mkRunnable(r *recorder, s svc, dn string) Runnable {
	return func(ctx context.Context) (err error) {
		inc := r.enter(dn)
		defer r.exit(dn, inc)
		// shorten this node's back-off: the bound that is checked is then the configured one
		n, unlock := fromContext(ctx)
		n.bo.InitialInterval = time.Millisecond
		n.bo.MaxInterval = 5 * time.Millisecond
		if r.slow {
			n.bo.InitialInterval = 80 * time.Millisecond
			n.bo.MaxInterval = 120 * time.Millisecond
		}
		n.bo.Reset()
		unlock()
		b := s.Beh[len(s.Beh)-1]
		if inc-1 < len(s.Beh) {
			b = s.Beh[inc-1]
		}
		for _, g := range s.Groups {
			m := map[string]Runnable{}
			for _, c := range g {
				m[c.Name] = mkRunnable(r, c, dn+"."+c.Name)
			}
			if err := RunGroup(ctx, m); err != nil {
				return err
			}
		}
		Signal(ctx, SignalHealthy)
		switch b.Kind {
		case "done", "done-slow":
			Signal(ctx, SignalDone)
			r.add(dn, "done", inc)
			if b.Kind == "done-slow" { // still finishing up after signalling completion
				time.Sleep(time.Duration(b.Lat) * time.Millisecond)
			}
			return nil
		case "run":
			<-ctx.Done()
			r.add(dn, "cancel-seen", inc)
			time.Sleep(time.Duration(b.Lat) * time.Millisecond)
			return ctx.Err()
		}
		// failure kinds
		select {
		case <-ctx.Done():
			r.add(dn, "cancel-seen", inc)
			return ctx.Err()
		case <-time.After(time.Duration(b.Delay) * time.Millisecond):
		}
		if ctx.Err() != nil {
			// both were ready and the timer won: this instance has been cancelled, it does not fail on its own
			r.add(dn, "cancel-seen", inc)
			return ctx.Err()
		}
		r.add(dn, "fail", inc)
		switch b.Kind {
		case "error":
			return errors.New("boom")
		case "nil":
			return nil
		case "wrapped-canceled": // e.g. the result of a private sub-context of an RPC, while the service's own context is live
			return fmt.Errorf("rpc failed: %w", context.Canceled)
		case "panic":
			panic("boom")
		case "panic-in-signal": // a lifecycle violation: the supervisor itself panics inside Signal (healthy signalled twice)
			Signal(ctx, SignalHealthy)
		}
		return errors.New("unknown behaviour")
	}
}

type treeInfo struct {
	parent   map[string]string
	siblings map[string][]string // group siblings (excluding self)
	spec     map[string]svc
}

func walk(s svc, dn, parent string, ti *treeInfo) {
	ti.parent[dn] = parent
	ti.spec[dn] = s
	for _, g := range s.Groups {
		for _, c := range g {
			cdn := dn + "." + c.Name
			for _, o := range g {
				if o.Name != c.Name {
					ti.siblings[cdn] = append(ti.siblings[cdn], dn+"."+o.Name)
				}
			}
			walk(c, cdn, dn, ti)
		}
	}
}

func runC18(c c18Case) (*vh.Violation, vh.Outcome) {
	out := vh.Outcome{}
	r := &recorder{start: time.Now(), running: map[string]*int32{}, incs: map[string]int{}, slow: c.SlowBackoff}
	ti := &treeInfo{parent: map[string]string{}, siblings: map[string][]string{}, spec: map[string]svc{}}
	walk(c.Root, "root", "", ti)
	// scheduling-lateness watchdog: a starved machine makes every time bound meaningless
	var maxLate int64
	wdStop := make(chan struct{})
	go func() {
		for {
			t0 := time.Now()
			select {
			case <-wdStop:
				return
			case <-time.After(time.Millisecond):
			}
			if l := int64(time.Since(t0) - time.Millisecond); l > atomic.LoadInt64(&maxLate) {
				atomic.StoreInt64(&maxLate, l)
			}
		}
	}()
	ctx, cancel := context.WithCancel(context.Background())
	New(ctx, zap.NewNop(), mkRunnable(r, c.Root, "root"))
	time.Sleep(time.Duration(c.RunMs) * time.Millisecond)
	var dump []byte
	if os.Getenv("VERIF_DEBUG") != "" {
		dump = make([]byte, 1<<20)
		dump = dump[:runtime.Stack(dump, true)]
	}
	tCancel := time.Since(r.start)
	cancel()
	deadline := time.Now().Add(3 * time.Second)
	for r.anyRunning() && time.Now().Before(deadline) {
		time.Sleep(time.Millisecond)
	}
	stillRunning := r.anyRunning()
	tQuiet := time.Since(r.start)
	time.Sleep(100 * time.Millisecond)
	close(wdStop)
	starved := time.Duration(atomic.LoadInt64(&maxLate)) > 50*time.Millisecond

	r.mu.Lock()
	events := append([]event{}, r.events...)
	overlap := append([]string{}, r.overlap...)
	r.mu.Unlock()
	sort.SliceStable(events, func(i, j int) bool { return events[i].t < events[j].t })

	nFail := map[string]bool{}
	depth3 := false
	for _, e := range events {
		if e.kind == "fail" {
			nFail[ti.parent[e.dn]+"/"+fmt.Sprint(len(ti.siblings[e.dn]))] = true
			d := 0
			for p := e.dn; ti.parent[p] != ""; p = ti.parent[p] {
				d++
			}
			if d >= 2 {
				depth3 = true
			}
		}
	}
	out.NonTrivial = len(nFail) >= 2 || depth3
	if starved {
		out.Inconclusive = true
		out.Labels = append(out.Labels, "machine-starved")
	}
	// 1. never two instances of one service at once (schedule independent: reported even on a starved machine)
	if len(overlap) > 0 {
		return vh.V("C18/two-instances-at-once", "%s", overlap[0]), out
	}
	// 4. cancelling the supervisor stops everything, nothing starts afterwards
	if stillRunning && !starved {
		return vh.V("C18/not-stopped-by-cancel", "services still running 3 s after the supervisor's context was cancelled"), out
	}
	// A start that the supervisor decided on just before the cancel shows up a scheduling latency later (the goroutine
	// has to get going before it can record itself): allow what the lateness watchdog measured, not more.
	startSlack := 500*time.Microsecond + 3*time.Duration(atomic.LoadInt64(&maxLate))
	for _, e := range events {
		if e.kind == "enter" && e.t > tQuiet+startSlack {
			return vh.V("C18/start-after-cancel", "%s started at %v, after every service had stopped following the cancel at %v", e.dn, e.t, tCancel), out
		}
	}
	if starved {
		return nil, out
	}
	const bound = 2 * time.Second
	window := tCancel - 250*time.Millisecond // only failures old enough to have been handled before the cancel are judged
	if window > bound {
		window = bound
	}
	enters := map[string][]event{}
	for _, e := range events {
		if e.kind == "enter" {
			enters[e.dn] = append(enters[e.dn], e)
		}
	}
	isAncestorScope := func(x, d string) bool { // x is an ancestor of d, or a group sibling of an ancestor, or a group sibling of d
		for _, s := range ti.siblings[d] {
			if s == x {
				return true
			}
		}
		for p := ti.parent[d]; p != ""; p = ti.parent[p] {
			if p == x {
				return true
			}
			for _, s := range ti.siblings[p] {
				if s == x {
					return true
				}
			}
		}
		return false
	}
	for i, e := range events {
		switch e.kind {
		case "fail":
			if e.t > tCancel-250*time.Millisecond {
				continue
			}
			// 2a. the failed service runs again
			again := false
			for _, en := range enters[e.dn] {
				if en.t > e.t && en.t <= tCancel {
					again = true
					break
				}
			}
			if !again {
				return vh.V("C18/failed-service-not-restarted", "%s failed (%s) at %v and was not started again before the cancel at %v (configured back-off <= 5 ms, or <= 180 ms in a slow-back-off case)\nhistory:\n%s%s", e.dn, behaviorOf(ti, e), e.t, tCancel, history(events, e.dn, ti), dump), out
			}
			// 2b. group siblings running at that time observe cancellation (or end by themselves)
			for _, sib := range ti.siblings[e.dn] {
				// the sibling instance running at e.t
				var cur *event
				for k := range enters[sib] {
					if enters[sib][k].t < e.t {
						cur = &enters[sib][k]
					}
				}
				if cur == nil {
					continue
				}
				ended := false
				for _, x := range events[:] {
					if x.dn == sib && x.inc == cur.inc && (x.kind == "cancel-seen" || x.kind == "exit" || x.kind == "done" || x.kind == "fail") && x.t <= e.t+250*time.Millisecond {
						ended = true
					}
				}
				if !ended {
					return vh.V("C18/group-sibling-not-cancelled", "%s failed at %v but its group sibling %s (incarnation %d) was neither cancelled nor finished within 250 ms", e.dn, e.t, sib, cur.inc), out
				}
			}
		case "enter":
			// 3. a service that signalled completion is left alone unless something in its scope failed since
			if e.inc >= 2 {
				var doneAt, since time.Duration = -1, 0
				for _, x := range events[:i] {
					if x.dn == e.dn && x.inc == e.inc-1 && x.kind == "done" {
						doneAt = x.t
					}
					if x.dn == e.dn && x.inc == e.inc-1 && x.kind == "enter" {
						since = x.t // a failure in scope any time during that incarnation may be what cancelled it
					}
				}
				ctxFrom := since
				for _, x := range events[:i] {
					if x.dn == e.dn && x.inc == e.inc-2 && x.kind == "exit" {
						ctxFrom = x.t
					}
				}
				if doneAt >= 0 {
					caused := false
					for _, x := range events[:i] {
						if x.kind == "fail" && x.t >= since-50*time.Millisecond && isAncestorScope(x.dn, e.dn) { // the supervisor may act on a failure some ms after it happened
							caused = true
						}
						// The context of an incarnation is created when the previous one has been cleaned up, i.e. before the
						// back-off: a failure in scope during that wait cancels it before it has started, and it is restarted
						// with its group as soon as it returns. So a failure counts from the previous incarnation's exit on.
						if x.kind == "fail" && x.t >= ctxFrom-50*time.Millisecond && isAncestorScope(x.dn, e.dn) {
							caused = true
						}
						// a failure anywhere above also shows as the parent being entered again
						if x.kind == "enter" && x.t >= since-50*time.Millisecond && x.dn == ti.parent[e.dn] {
							caused = true
						}
					}
					if !caused {
						return vh.V("C18/done-service-restarted", "%s signalled completion at %v and was started again at %v although nothing in its scope failed\nhistory:\n%s", e.dn, doneAt, e.t, history(events, e.dn, ti)), out
					}
				}
			}
		}
	}
	return nil, out
}

func behaviorOf(ti *treeInfo, e event) string {
	s := ti.spec[e.dn]
	b := s.Beh[len(s.Beh)-1]
	if e.inc-1 < len(s.Beh) {
		b = s.Beh[e.inc-1]
	}
	return b.Kind
}

func genSvc(t *rapid.T, name string, depth int, leafOnly bool) svc {
	s := svc{Name: name}
	nb := rapid.IntRange(1, 3).Draw(t, "nbeh")
	for i := 0; i < nb; i++ {
		k := rapid.SampledFrom([]string{"run", "run", "run", "error", "nil", "panic", "wrapped-canceled", "done", "done-slow", "panic-in-signal"}).Draw(t, "kind")
		s.Beh = append(s.Beh, behavior{Kind: k, Delay: rapid.IntRange(0, 40).Draw(t, "delay"), Lat: rapid.IntRange(0, 20).Draw(t, "lat")})
	}
	if depth < 2 && !leafOnly {
		ng := rapid.IntRange(0, 2).Draw(t, "ngroups")
		idx := 0
		for g := 0; g < ng; g++ {
			var grp []svc
			nm := rapid.IntRange(1, 3).Draw(t, "nmembers")
			for m := 0; m < nm; m++ {
				grp = append(grp, genSvc(t, fmt.Sprintf("s%d", idx), depth+1, false))
				idx++
			}
			s.Groups = append(s.Groups, grp)
		}
	}
	return s
}

func genC18(t *rapid.T) c18Case {
	root := genSvc(t, "root", 0, false)
	// in most cases the root keeps running (a failing root takes the whole tree down with it each time, which leaves
	// little else to see); in the others it fails like any other service while its children are running
	if rapid.IntRange(0, 3).Draw(t, "rootfails") > 0 {
		root.Beh = []behavior{{Kind: "run", Lat: rapid.IntRange(0, 5).Draw(t, "rootlat")}}
	} else {
		// (a root that only sets its children up and signals completion is legal too: its children keep running under
		// it, and cancelling the supervisor must still stop them)
	}
	if len(root.Groups) == 0 {
		root.Groups = [][]svc{{genSvc(t, "s0", 1, false), genSvc(t, "s1", 1, false)}}
	}
	return c18Case{Root: root, RunMs: rapid.IntRange(300, 500).Draw(t, "runms"), SlowBackoff: rapid.IntRange(0, 2).Draw(t, "slowbackoff") == 0}
}

func TestVerif_C18_Trees(t *testing.T) {
	vh.Check(t, vh.Prop[c18Case]{ID: "C18", Gen: genC18, Run: runC18})
}

// history renders the events of dn, its ancestors and its group siblings (for violation messages).
func history(events []event, dn string, ti *treeInfo) string {
	rel := map[string]bool{dn: true}
	for p := ti.parent[dn]; p != ""; p = ti.parent[p] {
		rel[p] = true
	}
	for _, s := range ti.siblings[dn] {
		rel[s] = true
	}
	out := ""
	for _, e := range events {
		if rel[e.dn] {
			out += fmt.Sprintf("  %10v %-14s %s #%d\n", e.t.Round(10*time.Microsecond), e.kind, e.dn, e.inc)
		}
	}
	return out
}
