//go:build verif

package ethereum

import (
	"bytes"
	"context"
	"fmt"
	"os"
	"sync"
	"sync/atomic"
	"testing"
	"time"

	"github.com/alephium/wormhole-fork/node/pkg/common"
	gossipv1 "github.com/alephium/wormhole-fork/node/pkg/proto/gossip/v1"
	"github.com/alephium/wormhole-fork/node/pkg/supervisor"
	"github.com/alephium/wormhole-fork/node/pkg/vaa"
	vh "github.com/alephium/wormhole-fork/node/zzverif"
	eth_common "github.com/ethereum/go-ethereum/common"
	"github.com/ethereum/go-ethereum/crypto"
	"go.uber.org/zap"
	"go.uber.org/zap/zapcore"
	"go.uber.org/zap/zaptest/observer"
	"pgregory.net/rapid"
)

// C10: the real Watcher.Run against the simulated EVM node, stepped one chain operation at a time.

type c10Op struct {
	K string `json:"k"` // log | advance | reorg | fault | reobserve
	A int    `json:"a,omitempty"`
	B int    `json:"b,omitempty"`
	C int    `json:"c,omitempty"`
}

type c10Case struct {
	Wait bool    `json:"wait"` // true: BSC-like (latest blocks, consistency level = confirmations); false: Ethereum-like (finalized blocks, no extra confirmations)
	Ops  []c10Op `json:"ops"`
}

var c10Contract = eth_common.HexToAddress("0x00000000000000000000000000000000000C0DE1")
var c10Other = eth_common.HexToAddress("0x000000000000000000000000000000000000BEEF")

type arrival struct {
	msg      *common.MessagePublication
	servedAt int
	opIdx    int
}

var c10Mu sync.Mutex // one watcher at a time per process: the package keeps global registries (readiness, p2p)

func runC10(c c10Case) (*vh.Violation, vh.Outcome) {
	c10Mu.Lock()
	defer c10Mu.Unlock()
	out := vh.Outcome{}
	dir := os.Getenv("VERIF_SCRATCH")
	if dir == "" {
		dir = os.TempDir()
	}
	sim := newSimEth(c10Contract)
	ss, err := startSim(sim, dir)
	if err != nil {
		return vh.V("harness/sim", "%v", err), out
	}
	defer ss.stop()

	core, logs := observer.New(zapcore.InfoLevel)
	logger := zap.New(core)
	msgC := make(chan *common.MessagePublication, 4096)
	setC := make(chan *common.GuardianSet, 64)
	reqC := make(chan *gossipv1.ObservationRequest, 16)
	poll := uint(1)
	chain := vaa.ChainIDEthereum
	if c.Wait {
		chain = vaa.ChainIDBSC
	}
	headTag := "finalized" // Ethereum outside dev mode is read at finalized height
	if c.Wait {
		headTag = "latest"
	}
	sim.final = sim.head
	w := NewEthWatcher(ss.path, c10Contract, "sim", "verifReadiness", chain, msgC, setC, reqC, false, &poll, c.Wait)
	ctx, cancel := context.WithCancel(context.Background())
	defer cancel()
	runErr := make(chan error, 8)
	supervisor.New(ctx, logger, func(ctx context.Context) error {
		if err := supervisor.Run(ctx, "evm", func(ctx context.Context) error {
			err := w.Run(ctx)
			select {
			case runErr <- err:
			default:
			}
			return err
		}); err != nil {
			return err
		}
		supervisor.Signal(ctx, supervisor.SignalHealthy)
		<-ctx.Done()
		return nil
	})
	waitFor := func(d time.Duration, f func() bool) bool {
		for t0 := time.Now(); time.Since(t0) < d; time.Sleep(200 * time.Microsecond) {
			if f() {
				return true
			}
		}
		return f()
	}
	inconclusive := func(why string) (*vh.Violation, vh.Outcome) {
		out.Inconclusive = true
		out.Labels = append(out.Labels, "inconclusive:"+why)
		return nil, out
	}
	if !waitFor(5*time.Second, func() bool { return sim.nsubs() >= 1 && logs.FilterMessage("updated guardian set found").Len() >= 1 }) {
		return inconclusive("watcher-did-not-start")
	}
	time.Sleep(2 * time.Millisecond)

	// every receive from msgC happens under the simulator's lock (before each request is recorded, and when the
	// harness collects), so a message handed over before the watcher's next request is stamped before that request
	var arrivals []arrival
	curOp := -1
	drain := func(n int) {
		for {
			select {
			case m := <-msgC:
				arrivals = append(arrivals, arrival{m, n, curOp})
			default:
				return
			}
		}
	}
	sim.mu.Lock()
	sim.drain = drain
	sim.mu.Unlock()
	collect := func() {
		sim.mu.Lock()
		drain(len(sim.served))
		sim.mu.Unlock()
	}
	opStart := map[int]int{} // operation -> number of requests served when it began
	setOp := func(i int) { sim.mu.Lock(); curOp = i; opStart[i] = len(sim.served); sim.mu.Unlock() }
	countLog := func(msg string) int { return logs.FilterMessage(msg).Len() }
	processedHead := func() uint64 {
		var h uint64
		for _, e := range logs.FilterMessage("processed new header").All() {
			for _, f := range e.Context {
				if f.Key == "current_block" {
					if s, ok := f.Interface.(fmt.Stringer); ok {
						var x uint64
						fmt.Sscan(s.String(), &x)
						if x > h {
							h = x
						}
					}
				}
			}
		}
		return h
	}
	pendingLen := func() int { w.pendingMu.Lock(); defer w.pendingMu.Unlock(); return len(w.pending) }
	var deaths, handledDeaths int32 // Run returned / the harness has waited for the next incarnation
	restartFrom := 0                // requests served before the current incarnation connected
	fetchLogs := 1                  // "fetching guardian set" lines seen so far (one per incarnation, plus one every 15 s)
	go func() {
		for {
			select {
			case <-runErr:
				atomic.AddInt32(&deaths, 1)
			case <-ctx.Done():
				return
			}
		}
	}()
	diedNow := func() bool { return atomic.LoadInt32(&deaths) > atomic.LoadInt32(&handledDeaths) }
	// settle: the watcher has seen the current head (if it is polling) and finished processing it
	settle := func() bool {
		return waitFor(3*time.Second, func() bool {
			if w.ethConn == nil {
				return false
			}
			sim.mu.Lock()
			head := sim.view(headTag)
			// the poller's first answer only initialises its cursor: no header is published (or processed) for it
			first, haveFirst := uint64(0), false
			for k := restartFrom; k < len(sim.served); k++ {
				if sv := sim.served[k]; sv.method == "eth_getBlockByNumber" && sv.arg == headTag && !sv.err {
					first, haveFirst = sv.head, true
					break
				}
			}
			sim.mu.Unlock()
			if !w.ethConn.enabled.Load() {
				return true
			}
			return processedHead() >= head || haveFirst && head == first || pendingLen() == 0 && !w.ethConn.enabled.Load()
		})
	}

	// When Run returns with an error the supervisor starts it again (same Watcher object, new connection). The case goes
	// on once the new incarnation has subscribed; what was pending before must still be confirmed afterwards.
	awaitRestart := func() bool {
		// the new incarnation subscribes to the logs and then fetches the guardian set (logged each time)
		ok := waitFor(8*time.Second, func() bool { return countLog("fetching guardian set") > fetchLogs && sim.nsubs() >= 1 })
		fetchLogs = countLog("fetching guardian set")
		sim.mu.Lock()
		restartFrom = len(sim.served)
		if len(sim.subs) > 1 {
			sim.subs = sim.subs[len(sim.subs)-1:] // the subscriptions of earlier incarnations died with their connections
		}
		sim.mu.Unlock()
		atomic.StoreInt32(&handledDeaths, atomic.LoadInt32(&deaths))
		time.Sleep(2 * time.Millisecond)
		return ok
	}
	maybeLost := map[eth_common.Hash]bool{} // logs published while no incarnation was subscribed
	var txs []*simTx
	reorgOrJump, reobs := false, false
	maxCL := 0
	for i, o := range c.Ops {
		setOp(i)
		if diedNow() {
			out.Labels = append(out.Labels, "watcher-restarted")
			collect()
			if !awaitRestart() {
				return inconclusive("watcher-did-not-restart")
			}
		}
		switch o.K {
		case "log":
			sim.mu.Lock()
			sim.head++
			t := &simTx{Hash: crypto.Keccak256Hash([]byte(fmt.Sprintf("tx-%d", len(txs)))), Block: sim.head, BlockHash: sim.blockHash(sim.head), Status: 1}
			t.OrigBlock, t.OrigHash = t.Block, t.BlockHash
			n := 1 + o.C%3
			// a transaction may carry several logs: genuine ones with different consistency levels, foreign ones in between
			kinds := []int{o.A, (o.A + o.C/3) % 3, (o.A + o.C/7) % 3}
			cls := []int{o.B, (o.B*7 + o.C) % 256, o.C % 4}
			for k := 0; k < n; k++ {
				l := simLog{Addr: c10Contract, Topic0: LogMessagePublishedTopic, Sender: eth_common.BytesToAddress([]byte{byte(1 + k)}), TC: uint16(o.C % 7), Seq: uint64(len(txs)*10 + k),
					Nonce: uint32(o.C), Payload: vh.Expand(uint64(o.C), 1+o.C%60), CL: uint8(cls[k])}
				kind := kinds[k]
				switch kind {
				case 1:
					l.Addr = c10Other
				case 2:
					l.Topic0 = crypto.Keccak256Hash([]byte("SomethingElse(address,uint16)"))
				}
				t.Logs = append(t.Logs, l)
				if int(l.CL) > maxCL {
					maxCL = int(l.CL)
				}
			}
			sim.txs[t.Hash] = t
			txs = append(txs, t)
			found0 := countLog("found new message publication transaction")
			matched := sim.publish(t)
			sim.mu.Unlock()
			if matched > 0 && !waitFor(3*time.Second, func() bool {
				return countLog("found new message publication transaction") >= found0+matched || diedNow()
			}) {
				return inconclusive("log-not-consumed")
			}
			if countLog("found new message publication transaction") < found0+matched {
				maybeLost[t.Hash] = true // the subscription went away while the log was on its way
			}
			time.Sleep(500 * time.Microsecond)
		case "advance":
			sim.mu.Lock()
			sim.head += uint64(1 + o.A)
			sim.mu.Unlock()
			if o.A >= 10 {
				reorgOrJump = true
			}
		case "reorg":
			if len(txs) == 0 {
				continue
			}
			t := txs[o.A%len(txs)]
			if o.B >= 4 {
				// the transaction is mined again in a later block and the node tells its subscribers: the log of the new
				// block and the removal of the old one, in either order. From here on the new block is "its block".
				collect()
				already := false
				sim.mu.Lock()
				for _, a := range arrivals {
					if a.msg.TxHash == t.Hash {
						already = true
					}
				}
				sim.mu.Unlock()
				if already || t.Gone || t.Status != 1 || diedNow() || maybeLost[t.Hash] {
					continue
				}
				sim.mu.Lock()
				oldBlock, oldHash := t.Block, t.BlockHash
				sim.head++
				t.Block = sim.head
				t.BlockHash = sim.blockHash(t.Block)
				t.OrigBlock, t.OrigHash = t.Block, t.BlockHash
				found0 := countLog("found new message publication transaction")
				// (only the new block's logs are waited for by their log line: what a watcher does with a removal
				// notification is its own business)
				matched := 0
				if o.B%2 == 0 {
					matched += sim.publish(t)
					sim.publishRemoved(t, oldBlock, oldHash)
				} else {
					sim.publishRemoved(t, oldBlock, oldHash)
					matched += sim.publish(t)
				}
				sim.mu.Unlock()
				out.Labels = append(out.Labels, "remined-with-notifications")
				reorgOrJump = true
				if matched > 0 && !waitFor(3*time.Second, func() bool {
					return countLog("found new message publication transaction") >= found0+matched || diedNow()
				}) {
					return inconclusive("log-not-consumed")
				}
				if countLog("found new message publication transaction") < found0+matched {
					maybeLost[t.Hash] = true
				}
				time.Sleep(3 * time.Millisecond)
				break
			}
			sim.mu.Lock()
			switch o.B % 4 {
			case 0: // the block is replaced, the tx is re-mined in the replacement (other hash, same number)
				sim.fork[t.Block]++
				t.BlockHash = sim.blockHash(t.Block)
			case 1:
				t.Gone = true
			case 2:
				t.Status = 0
			case 3: // re-mined later
				sim.head++
				t.Block = sim.head
				t.BlockHash = sim.blockHash(t.Block)
			}
			sim.mu.Unlock()
			reorgOrJump = true
		case "lag":
			// finality falls behind the head by this many blocks (only visible to a watcher reading at finalized height)
			sim.mu.Lock()
			sim.lag = uint64(o.A)
			sim.mu.Unlock()
			if !c.Wait && o.A > 0 {
				out.Labels = append(out.Labels, "finality-lag")
			}
			continue
		case "fault":
			sim.mu.Lock()
			sim.faults[[]string{"eth_getTransactionReceipt", "eth_getBlockByNumber"}[o.A%2]] = 1 + o.B%4 // three failed head polls in a row end this incarnation of the watcher
			sim.errText = transientTexts[o.C%len(transientTexts)]
			sim.mu.Unlock()
			out.Labels = append(out.Labels, "fault")
			continue
		case "reobserve":
			if len(txs) == 0 {
				continue
			}
			reobs = true
			t := txs[o.A%len(txs)]
			if o.B > 0 {
				// the chain moves while the request is being handled: right after the receipt has been answered the head
				// grows (and, for odd B, the transaction's block is orphaned)
				grow, orphan := uint64(o.B), o.B%2 == 1
				sim.mu.Lock()
				sim.afterReceipt[t.Hash] = func() {
					sim.head += grow
					if orphan {
						t.Gone = true
					}
				}
				sim.mu.Unlock()
				out.Labels = append(out.Labels, "chain-moves-during-reobservation")
				reorgOrJump = true
			}
			reqC <- &gossipv1.ObservationRequest{ChainId: uint32(chain), TxHash: t.Hash.Bytes()}
			// the re-observation goroutine handles requests one after the other: once a later request for a transaction
			// that does not exist has reached its receipt lookup, the request above has been handled completely
			done := false
			for b := 0; b < 5 && !done; b++ {
				bh := crypto.Keccak256Hash([]byte(fmt.Sprintf("barrier-%d-%d", i, b)))
				reqC <- &gossipv1.ObservationRequest{ChainId: uint32(chain), TxHash: bh.Bytes()}
				f0 := countLog("failed to get block number")
				waitFor(3*time.Second, func() bool {
					sim.mu.Lock()
					defer sim.mu.Unlock()
					for k := len(sim.served) - 1; k >= 0 && k > len(sim.served)-400; k-- {
						if sim.served[k].method == "eth_getTransactionReceipt" && sim.served[k].arg == bh.Hex() {
							done = true
							return true
						}
					}
					return len(reqC) == 0 && countLog("failed to get block number") > f0
				})
			}
			if !done {
				return inconclusive("reobserve-not-handled")
			}
			time.Sleep(3 * time.Millisecond)
		}
		if diedNow() {
			out.Labels = append(out.Labels, "watcher-restarted")
			collect()
			if !awaitRestart() {
				return inconclusive("watcher-did-not-restart")
			}
			continue
		}
		if !settle() {
			if diedNow() {
				out.Labels = append(out.Labels, "watcher-restarted")
				collect()
				if !awaitRestart() {
					return inconclusive("watcher-did-not-restart")
				}
				continue
			}
			return inconclusive("step-did-not-settle")
		}
		time.Sleep(300 * time.Microsecond)
		collect()
	}
	// final stretch: make every pending message deep enough, in one jump (finality catching up), then ordinary blocks
	// while something is still pending: whatever could not be fetched gets further chances (injected faults last a few calls)
	setOp(len(c.Ops))
	finalStep := func(n uint64) (bool, string) {
		sim.mu.Lock()
		sim.lag = 0
		sim.head += n
		sim.mu.Unlock()
		if !settle() {
			if diedNow() {
				out.Labels = append(out.Labels, "watcher-restarted")
				collect()
				if !awaitRestart() {
					return false, "watcher-did-not-restart"
				}
				return true, ""
			}
			return false, "final-step-did-not-settle"
		}
		time.Sleep(time.Millisecond)
		collect()
		return true, ""
	}
	if ok, why := finalStep(uint64(maxCL + 2)); !ok {
		return inconclusive(why)
	}
	for round := 0; round < 8 && (round == 0 || pendingLen() > 0 || diedNow()); round++ {
		if ok, why := finalStep(1); !ok {
			return inconclusive(why)
		}
	}
	restarted := false
	for _, l := range out.Labels {
		if l == "watcher-restarted" {
			restarted = true
		}
	}

	// ---------------------------------------------------------------- safety, against what the node answered
	sim.mu.Lock()
	servedLog := append([]served{}, sim.served...)
	arrived := append([]arrival{}, arrivals...)
	sim.mu.Unlock()
	isReobsOp := func(i int) bool { return i >= 0 && i < len(c.Ops) && c.Ops[i].K == "reobserve" }
	polled := map[string]int{}
	for _, a := range arrived {
		m := a.msg
		t := sim.txs[m.TxHash]
		if t == nil {
			return vh.V("C10/unknown-transaction-forwarded", "message for tx %s which the chain never contained", m.TxHash.Hex()), out
		}
		var lg *simLog
		for k := range t.Logs {
			if t.Logs[k].Seq == m.Sequence {
				lg = &t.Logs[k]
			}
		}
		if lg == nil {
			return vh.V("C10/unknown-log-forwarded", "message with sequence %d not emitted by tx %s", m.Sequence, m.TxHash.Hex()), out
		}
		if lg.Addr != c10Contract || lg.Topic0 != LogMessagePublishedTopic {
			return vh.V("C10/foreign-log-forwarded", "op %d: a log emitted by %s with topic %s was forwarded (core contract %s, message-published topic %s)", a.opIdx, lg.Addr.Hex(), lg.Topic0.Hex()[:10], c10Contract.Hex(), LogMessagePublishedTopic.Hex()[:10]), out
		}
		if m.EmitterChain != chain || uint16(m.TargetChain) != lg.TC || m.Nonce != lg.Nonce || m.ConsistencyLevel != lg.CL || !bytes.Equal(m.Payload, lg.Payload) || m.EmitterAddress != PadAddress(lg.Sender) {
			return vh.V("C10/message-fields-wrong", "forwarded message %+v does not carry the fields of its log", m), out
		}
		conf := uint64(0)
		if c.Wait {
			conf = uint64(lg.CL)
		}
		// what had the node told the watcher before this message arrived?
		var maxHead uint64
		var lastRcpt *served
		for k := 0; k < a.servedAt && k < len(servedLog); k++ {
			s := servedLog[k]
			if s.method == "eth_getBlockByNumber" && !s.err && s.arg == headTag && s.head > maxHead {
				maxHead = s.head
			}
			if s.method == "eth_getTransactionReceipt" && s.arg == m.TxHash.Hex() && !s.err {
				x := s
				lastRcpt = &x
			}
		}
		// "at that moment": the receipt the hand-off rests on was asked for after the message had become deep enough
		// (polling path) or while the request was being handled (re-observation path), not remembered from earlier
		if lastRcpt != nil && lastRcpt.found {
			fresh := -1
			if isReobsOp(a.opIdx) {
				fresh = opStart[a.opIdx]
			} else {
				for k := 0; k < a.servedAt && k < len(servedLog); k++ {
					if sv := servedLog[k]; sv.method == "eth_getBlockByNumber" && !sv.err && sv.arg == headTag && sv.head >= t.OrigBlock+conf {
						fresh = k
						break
					}
				}
			}
			if fresh >= 0 && lastRcpt.seq < fresh {
				return vh.V("C10/forwarded-on-stale-receipt", "op %d: message of tx %s forwarded on a receipt the node was last asked for at request #%d, before the message became deep enough / the request arrived (request #%d); nothing was asked at the moment of the hand-off", a.opIdx, m.TxHash.Hex(), lastRcpt.seq, fresh), out
			}
		}
		if isReobsOp(a.opIdx) && (lastRcpt == nil || !lastRcpt.found) {
			// two goroutines ask for receipts while a re-observation request is handled: the request's handler and the
			// head loop (for the same transaction, if it is still pending). Each acts on the answers it got itself; the
			// hand-off rests on the forwarder's own last answer, which need not be the last answer overall (the chain
			// may have moved in between: the head loop is then told "not found" and drops its copy).
			for k := opStart[a.opIdx]; k >= 0 && k < a.servedAt && k < len(servedLog); k++ {
				if sv := servedLog[k]; sv.method == "eth_getTransactionReceipt" && sv.arg == m.TxHash.Hex() && !sv.err && sv.found {
					x := sv
					lastRcpt = &x
				}
			}
		}
		if lastRcpt == nil || !lastRcpt.found {
			return vh.V("C10/forwarded-without-receipt", "op %d: message of tx %s forwarded although the node's last answer for its receipt was 'not found' (or none)", a.opIdx, m.TxHash.Hex()), out
		}
		if lastRcpt.status != 1 {
			return vh.V("C10/failed-transaction-forwarded", "op %d: message of tx %s forwarded although its receipt has status %d", a.opIdx, m.TxHash.Hex(), lastRcpt.status), out
		}
		if isReobsOp(a.opIdx) {
			// the depth is judged against a head the node reported *before* it answered the receipt: a head read afterwards
			// says nothing about the block the receipt named
			maxHead = 0
			for k := 0; k < lastRcpt.seq && k < len(servedLog); k++ {
				if sv := servedLog[k]; sv.method == "eth_getBlockByNumber" && !sv.err && sv.arg == headTag && sv.head > maxHead {
					maxHead = sv.head
				}
			}
			if lastRcpt.head+conf > maxHead {
				return vh.V("C10/reobserved-too-shallow", "op %d: re-observed message of tx %s forwarded at depth %d, required %d (receipt block %d, highest head served %d)", a.opIdx, m.TxHash.Hex(), int64(maxHead)-int64(lastRcpt.head), conf, lastRcpt.head, maxHead), out
			}
			continue
		}
		polled[fmt.Sprintf("%s/%d", m.TxHash.Hex(), m.Sequence)]++
		if lastRcpt.bhash != t.OrigHash {
			return vh.V("C10/moved-transaction-forwarded", "op %d: message of tx %s forwarded although its receipt now points to block %s, the log was in %s", a.opIdx, m.TxHash.Hex(), lastRcpt.bhash.Hex()[:10], t.OrigHash.Hex()[:10]), out
		}
		if t.OrigBlock+conf > maxHead {
			return vh.V("C10/forwarded-too-shallow", "op %d: message of tx %s (block %d, %d confirmations required) forwarded when the highest head served under the tag the watcher reads (%s) was %d", a.opIdx, m.TxHash.Hex(), t.OrigBlock, conf, headTag, maxHead), out
		}
	}
	// ---------------------------------------------------------------- exactly once (bounded liveness)
	nForwarded := 0
	for k, n := range polled {
		nForwarded += n
		if n > 1 {
			return vh.V("C10/forwarded-twice", "%s was forwarded %d times by the polling path", k, n), out
		}
	}
	out.NonTrivial = reorgOrJump && nForwarded > 0
	_ = restarted
	if !reobs {
		for _, t := range txs {
			if maybeLost[t.Hash] {
				continue
			}
			for _, lg := range t.Logs {
				if lg.Addr != c10Contract || lg.Topic0 != LogMessagePublishedTopic {
					continue
				}
				stayed := !t.Gone && t.Status == 1 && t.BlockHash == t.OrigHash
				key := fmt.Sprintf("%s/%d", t.Hash.Hex(), lg.Seq)
				if !stayed || polled[key] == 1 {
					continue
				}
				// absent: acceptable only if the node failed to answer the last receipt lookup for it
				var last *served
				lookups := 0
				for k := range servedLog {
					if servedLog[k].method == "eth_getTransactionReceipt" && servedLog[k].arg == t.Hash.Hex() {
						last = &servedLog[k]
						lookups++
					}
				}
				conf := uint64(0)
				if c.Wait {
					conf = uint64(lg.CL)
				}
				// the node failed to answer a lookup; that excuses the loss only if the whole abandonment window (60 blocks past
				// readiness) had gone by when it failed. Several messages of one transaction share their lookups, so any failed
				// lookup of the transaction after the window counts.
				excused, early := false, uint64(0)
				var headThen uint64
				for k := range servedLog {
					sv := servedLog[k]
					if sv.method == "eth_getBlockByNumber" && !sv.err && sv.arg == headTag && sv.head > headThen {
						headThen = sv.head
					}
					if sv.method == "eth_getTransactionReceipt" && sv.arg == t.Hash.Hex() && sv.err {
						if headThen >= t.OrigBlock+conf+60 {
							excused = true
						} else if early == 0 {
							early = headThen
						}
					}
				}
				if excused {
					out.Labels = append(out.Labels, "abandoned-after-window")
					continue
				}
				if last != nil && last.err {
					return vh.V("C10/abandoned-on-transient-error", "the log of tx %s (block %d, %d confirmations required) was given up after a failed receipt lookup at head %d, long before the abandonment window (block %d) had passed; its transaction stayed in its block",
						t.Hash.Hex()[:12], t.OrigBlock, conf, early, t.OrigBlock+conf+60), out
				}
				fp := "C10/message-never-forwarded"
				if lookups == 0 {
					fp = "C10/timeout-before-ready"
				}
				return vh.V(fp, "the log of tx %s (block %d, consistency level %d, %d confirmations required) stayed in its block with status 1 and the head reached %d, but it was never forwarded; the watcher asked for its receipt %d times",
					t.Hash.Hex()[:12], t.OrigBlock, lg.CL, conf, sim.head, lookups), out
			}
		}
	}
	return nil, out
}

func genC10(t *rapid.T) c10Case {
	c := c10Case{Wait: rapid.Bool().Draw(t, "wait")}
	op := rapid.Custom(func(t *rapid.T) c10Op {
		switch rapid.SampledFrom([]string{"log", "log", "log", "advance", "advance", "advance", "reorg", "fault", "reobserve", "lag"}).Draw(t, "k") {
		case "lag":
			return c10Op{K: "lag", A: rapid.SampledFrom([]int{0, 1, 2, 5, 12, 64}).Draw(t, "lag")}
		case "log":
			return c10Op{K: "log", A: rapid.SampledFrom([]int{0, 0, 0, 0, 1, 2}).Draw(t, "kind"), B: rapid.OneOf(rapid.IntRange(0, 5), rapid.IntRange(0, 40), rapid.SampledFrom([]int{0, 1, 15, 200, 255})).Draw(t, "cl"), C: rapid.IntRange(0, 1000).Draw(t, "c")}
		case "advance":
			return c10Op{K: "advance", A: rapid.OneOf(rapid.IntRange(0, 3), rapid.IntRange(0, 70), rapid.IntRange(0, 200)).Draw(t, "n")}
		case "reorg":
			return c10Op{K: "reorg", A: rapid.IntRange(0, 9).Draw(t, "tx"), B: rapid.IntRange(0, 5).Draw(t, "mode")}
		case "fault":
			return c10Op{K: "fault", A: rapid.IntRange(0, 1).Draw(t, "m"), B: rapid.SampledFrom([]int{0, 0, 0, 0, 0, 0, 0, 0, 1, 1, 1, 1, 1, 1, 1, 1, 2, 3}).Draw(t, "n"), C: rapid.IntRange(0, 4).Draw(t, "text")}
		}
		return c10Op{K: "reobserve", A: rapid.IntRange(0, 9).Draw(t, "tx"), B: rapid.SampledFrom([]int{0, 0, 0, 1, 2, 15, 16}).Draw(t, "moves")}
	})
	c.Ops = rapid.SliceOfN(op, 1, 25).Draw(t, "ops")
	return c
}

func TestVerif_C10_Watcher(t *testing.T) {
	vh.Check(t, vh.Prop[c10Case]{ID: "C10", Gen: genC10, Run: runC10})
}
