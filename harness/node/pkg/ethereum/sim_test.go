//go:build verif

package ethereum

import (
	"context"
	"errors"
	"fmt"
	"math/big"
	"net"
	"os"
	"strings"
	"sync"

	ethAbi "github.com/alephium/wormhole-fork/node/pkg/ethereum/abi"
	"github.com/ethereum/go-ethereum/accounts/abi"
	"github.com/ethereum/go-ethereum/common"
	"github.com/ethereum/go-ethereum/common/hexutil"
	"github.com/ethereum/go-ethereum/crypto"
	"github.com/ethereum/go-ethereum/rpc"
)

// A simulated EVM node: a go-ethereum rpc.Server with an "eth" namespace served on a unix
// socket. It owns the ground-truth chain and logs every answer it gives with a global
// sequence number, so that the safety oracle can be stated against what the watcher was told.

type simLog struct {
	Addr    common.Address
	Topic0  common.Hash
	Sender  common.Address
	TC      uint16
	Seq     uint64
	Nonce   uint32
	Payload []byte
	CL      uint8
}

type simTx struct {
	Hash      common.Hash
	Block     uint64 // number of the block currently holding it
	BlockHash common.Hash
	Status    uint64
	Gone      bool // receipt not found any more
	Logs      []simLog
	OrigBlock uint64
	OrigHash  common.Hash
}

type served struct {
	seq    int
	method string
	arg    string
	head   uint64 // for block-number answers
	err    bool
	status uint64
	bhash  common.Hash
	found  bool
}

type simEth struct {
	mu           sync.Mutex
	head         uint64
	fork         map[uint64]int // how many times block n was replaced
	txs          map[common.Hash]*simTx
	contract     common.Address
	parsed       abi.ABI
	served       []served
	faults       map[string]int // method -> number of next calls that fail
	subs         []*simSub
	gsKeys       []common.Address
	afterReceipt map[common.Hash]func() // one-shot: run (under the lock) right after the receipt of that transaction was answered
	lag          uint64                 // finalized head = head - lag (never moves backwards)
	final        uint64
	drain        func(n int) // called under the lock before a request is recorded: n = requests recorded so far
	errText      string      // what the next failing calls say ("" = errTransient's text)
}

type simSub struct {
	notifier *rpc.Notifier
	id       rpc.ID
	addrs    map[common.Address]bool
	topics   map[common.Hash]bool
}

var errTransient = errors.New("upstream temporarily unavailable")

// what a node (or the proxy in front of it) says when it is behind or overloaded; none of these is a statement about
// the transaction that was asked for
var transientTexts = []string{"upstream temporarily unavailable", "header not found", "block not found", "request failed or timed out", "method handler crashed"}

func (s *simEth) transient() error {
	if s.errText == "" {
		return errTransient
	}
	return errors.New(s.errText)
}

func newSimEth(contract common.Address) *simEth {
	p, err := abi.JSON(strings.NewReader(ethAbi.AbiABI))
	if err != nil {
		panic(err)
	}
	return &simEth{head: 100, fork: map[uint64]int{}, txs: map[common.Hash]*simTx{}, contract: contract, parsed: p, faults: map[string]int{}, afterReceipt: map[common.Hash]func(){}, gsKeys: []common.Address{{1}}}
}

func (s *simEth) blockHash(n uint64) common.Hash {
	return crypto.Keccak256Hash([]byte(fmt.Sprintf("block-%d-fork-%d", n, s.fork[n])))
}

// view: the block number the node reports under a tag
func (s *simEth) view(tag string) uint64 {
	if tag != "finalized" && tag != "safe" {
		return s.head
	}
	if s.head > s.lag && s.head-s.lag > s.final {
		s.final = s.head - s.lag
	}
	return s.final
}

func (s *simEth) fail(method string) bool {
	if s.faults[method] > 0 {
		s.faults[method]--
		return true
	}
	return false
}

func (s *simEth) record(e served) {
	if s.drain != nil {
		s.drain(len(s.served))
	}
	e.seq = len(s.served)
	s.served = append(s.served, e)
}

type ethAPI struct{ s *simEth }

func (a *ethAPI) GetBlockByNumber(ctx context.Context, tag string, full bool) (map[string]interface{}, error) {
	s := a.s
	s.mu.Lock()
	defer s.mu.Unlock()
	if s.fail("eth_getBlockByNumber") {
		s.record(served{method: "eth_getBlockByNumber", arg: tag, err: true})
		return nil, s.transient()
	}
	n := s.view(tag)
	if strings.HasPrefix(tag, "0x") {
		b, err := hexutil.DecodeUint64(tag)
		if err != nil {
			return nil, err
		}
		n = b
	}
	s.record(served{method: "eth_getBlockByNumber", arg: tag, head: n})
	return map[string]interface{}{"number": hexutil.EncodeUint64(n), "hash": s.blockHash(n)}, nil
}

// eth_blockNumber: the height of the latest block, whatever the chain's notion of finality.
func (a *ethAPI) BlockNumber(ctx context.Context) (hexutil.Uint64, error) {
	s := a.s
	s.mu.Lock()
	defer s.mu.Unlock()
	if s.fail("eth_blockNumber") {
		s.record(served{method: "eth_blockNumber", err: true})
		return 0, s.transient()
	}
	s.record(served{method: "eth_blockNumber", arg: "latest", head: s.head})
	return hexutil.Uint64(s.head), nil
}

func (a *ethAPI) GetBlockByHash(ctx context.Context, h common.Hash, full bool) (map[string]interface{}, error) {
	s := a.s
	s.mu.Lock()
	defer s.mu.Unlock()
	if s.fail("eth_getBlockByHash") {
		s.record(served{method: "eth_getBlockByHash", arg: h.Hex(), err: true})
		return nil, s.transient()
	}
	s.record(served{method: "eth_getBlockByHash", arg: h.Hex()})
	zero := common.Hash{}
	return map[string]interface{}{
		"parentHash": zero, "sha3Uncles": zero, "miner": common.Address{}, "stateRoot": zero, "transactionsRoot": zero, "receiptsRoot": zero,
		"logsBloom": hexutil.Bytes(make([]byte, 256)), "difficulty": "0x1", "number": "0x1", "gasLimit": "0x1", "gasUsed": "0x0",
		"timestamp": hexutil.EncodeUint64(1700000000 + uint64(h[31])), "extraData": "0x", "mixHash": zero, "nonce": "0x0000000000000000", "hash": h,
	}, nil
}

func (s *simEth) logJSON(t *simTx, i int, l simLog) map[string]interface{} {
	data, err := s.parsed.Events["LogMessagePublished"].Inputs.NonIndexed().Pack(l.TC, l.Seq, l.Nonce, l.Payload, l.CL)
	if err != nil {
		panic(err)
	}
	return map[string]interface{}{
		"address": l.Addr, "topics": []common.Hash{l.Topic0, common.BytesToHash(l.Sender.Bytes())}, "data": hexutil.Bytes(data),
		"blockNumber": hexutil.EncodeUint64(t.Block), "transactionHash": t.Hash, "transactionIndex": "0x0", "blockHash": t.BlockHash, "logIndex": hexutil.EncodeUint64(uint64(i)), "removed": false,
	}
}

func (a *ethAPI) GetTransactionReceipt(ctx context.Context, h common.Hash) (map[string]interface{}, error) {
	s := a.s
	s.mu.Lock()
	defer s.mu.Unlock()
	if s.fail("eth_getTransactionReceipt") {
		s.record(served{method: "eth_getTransactionReceipt", arg: h.Hex(), err: true})
		return nil, s.transient()
	}
	t := s.txs[h]
	if t == nil || t.Gone {
		s.record(served{method: "eth_getTransactionReceipt", arg: h.Hex(), found: false})
		return nil, nil // "not found"
	}
	s.record(served{method: "eth_getTransactionReceipt", arg: h.Hex(), found: true, status: t.Status, bhash: t.BlockHash, head: t.Block})
	var logs []map[string]interface{}
	for i, l := range t.Logs {
		logs = append(logs, s.logJSON(t, i, l))
	}
	if logs == nil {
		logs = []map[string]interface{}{}
	}
	resp := map[string]interface{}{
		"status": hexutil.EncodeUint64(t.Status), "cumulativeGasUsed": "0x1", "logsBloom": hexutil.Bytes(make([]byte, 256)), "logs": logs,
		"transactionHash": t.Hash, "gasUsed": "0x1", "blockHash": t.BlockHash, "blockNumber": hexutil.EncodeUint64(t.Block), "transactionIndex": "0x0", "contractAddress": nil, "type": "0x0",
	}
	if f := s.afterReceipt[h]; f != nil {
		delete(s.afterReceipt, h)
		f() // the chain moves on between this answer and the watcher's next question
	}
	return resp, nil
}

func (a *ethAPI) Call(ctx context.Context, args map[string]interface{}, block interface{}) (hexutil.Bytes, error) {
	s := a.s
	s.mu.Lock()
	defer s.mu.Unlock()
	if s.fail("eth_call") {
		return nil, s.transient()
	}
	in, _ := args["data"].(string)
	if in == "" {
		in, _ = args["input"].(string)
	}
	raw, err := hexutil.Decode(in)
	if err != nil || len(raw) < 4 {
		return nil, errors.New("bad call data")
	}
	m, err := s.parsed.MethodById(raw[:4])
	if err != nil {
		return nil, err
	}
	switch m.Name {
	case "getCurrentGuardianSetIndex":
		return m.Outputs.Pack(uint32(0))
	case "getGuardianSet":
		return m.Outputs.Pack(ethAbi.StructsGuardianSet{Keys: s.gsKeys, ExpirationTime: 0})
	}
	return nil, fmt.Errorf("unsupported call %s", m.Name)
}

// Logs implements eth_subscribe("logs", criteria) with a node's filtering semantics.
func (a *ethAPI) Logs(ctx context.Context, crit map[string]interface{}) (*rpc.Subscription, error) {
	notifier, ok := rpc.NotifierFromContext(ctx)
	if !ok {
		return nil, rpc.ErrNotificationsUnsupported
	}
	sub := notifier.CreateSubscription()
	ss := &simSub{notifier: notifier, id: sub.ID, addrs: map[common.Address]bool{}, topics: map[common.Hash]bool{}}
	addAddr := func(v interface{}) {
		if str, ok := v.(string); ok {
			ss.addrs[common.HexToAddress(str)] = true
		}
	}
	switch v := crit["address"].(type) {
	case string:
		addAddr(v)
	case []interface{}:
		for _, x := range v {
			addAddr(x)
		}
	}
	if ts, ok := crit["topics"].([]interface{}); ok && len(ts) > 0 {
		switch v := ts[0].(type) {
		case string:
			ss.topics[common.HexToHash(v)] = true
		case []interface{}:
			for _, x := range v {
				if str, ok := x.(string); ok {
					ss.topics[common.HexToHash(str)] = true
				}
			}
		}
	}
	a.s.mu.Lock()
	a.s.subs = append(a.s.subs, ss)
	a.s.mu.Unlock()
	return sub, nil
}

// publish pushes the logs of t to every subscription whose criteria they meet. Returns how many logs matched.
// publishRemoved notifies the subscribers that the logs a transaction had in an earlier block were removed by a reorg.
func (s *simEth) publishRemoved(t *simTx, oldBlock uint64, oldHash common.Hash) int {
	n := 0
	cp := *t
	cp.Block, cp.BlockHash = oldBlock, oldHash
	for _, ss := range s.subs {
		for i, l := range t.Logs {
			if len(ss.addrs) > 0 && !ss.addrs[l.Addr] {
				continue
			}
			if len(ss.topics) > 0 && !ss.topics[l.Topic0] {
				continue
			}
			n++
			j := s.logJSON(&cp, i, l)
			j["removed"] = true
			_ = ss.notifier.Notify(ss.id, j)
		}
	}
	return n
}

func (s *simEth) publish(t *simTx) int {
	n := 0
	for _, ss := range s.subs {
		for i, l := range t.Logs {
			if len(ss.addrs) > 0 && !ss.addrs[l.Addr] {
				continue
			}
			if len(ss.topics) > 0 && !ss.topics[l.Topic0] {
				continue
			}
			n++
			_ = ss.notifier.Notify(ss.id, s.logJSON(t, i, l))
		}
	}
	return n
}

func (s *simEth) nsubs() int {
	s.mu.Lock()
	defer s.mu.Unlock()
	return len(s.subs)
}

type simServer struct {
	srv  *rpc.Server
	l    net.Listener
	path string
}

func startSim(s *simEth, dir string) (*simServer, error) {
	srv := rpc.NewServer()
	if err := srv.RegisterName("eth", &ethAPI{s}); err != nil {
		return nil, err
	}
	path := fmt.Sprintf("%s/evm-%d.ipc", dir, os.Getpid())
	_ = os.Remove(path)
	l, err := net.Listen("unix", path)
	if err != nil {
		return nil, err
	}
	go func() { _ = srv.ServeListener(l) }()
	return &simServer{srv, l, path}, nil
}

func (ss *simServer) stop() {
	_ = ss.l.Close()
	ss.srv.Stop()
	_ = os.Remove(ss.path)
}

var _ = big.NewInt
