//go:build verif

package discord

import (
	"net/http"
	"time"

	"github.com/diamondburned/arikawa/v3/api"
	"github.com/diamondburned/arikawa/v3/utils/httputil"
	"github.com/diamondburned/arikawa/v3/utils/httputil/httpdriver"
	"go.uber.org/zap"
)

// NewForVerif builds a notifier whose Discord API client talks to the given transport instead of the network.
// Harness-only (overlaid at check time, never part of the repository): NewDiscordNotifier fetches guilds and
// channels from discord.com while constructing, which a sealed sandbox cannot answer.
func NewForVerif(rt http.RoundTripper, logger *zap.Logger) *DiscordNotifier {
	hc := httputil.NewClient()
	hc.Client = httpdriver.WrapClient(http.Client{Transport: rt, Timeout: 5 * time.Second})
	hc.Retries = 1
	return &DiscordNotifier{
		c:         api.NewCustomClient("Bot verif", hc),
		logger:    logger,
		groupToID: make(map[string]string),
	}
}
