//go:build verif

package spy

import (
	"bytes"
	"context"
	"encoding/hex"
	"fmt"
	"os"
	"strings"
	"sync"
	"testing"
	"time"

	publicrpcv1 "github.com/alephium/wormhole-fork/node/pkg/proto/publicrpc/v1"
	spyv1 "github.com/alephium/wormhole-fork/node/pkg/proto/spy/v1"
	"github.com/alephium/wormhole-fork/node/pkg/vaa"
	vh "github.com/alephium/wormhole-fork/node/zzverif"
	"go.uber.org/zap"
	"google.golang.org/grpc"
	"pgregory.net/rapid"
)

// C20: subscriptions on fake gRPC streams whose Send can be gated; Publish called by the harness.

const c20Known = "C20/blocked-behind-unread-subscriber"

type c20Filter struct {
	Chain uint16 `json:"chain"`
	Addr  int    `json:"addr"`
}

type c20Op struct {
	K       string      `json:"k"` // subscribe | publish | stall | resume | disconnect
	Sub     int         `json:"sub,omitempty"`
	Filters []c20Filter `json:"filters,omitempty"`
	Chain   uint16      `json:"chain,omitempty"`
	Addr    int         `json:"addr,omitempty"`
	Bad     bool        `json:"bad,omitempty"` // publish bytes that do not decode
	N       int         `json:"n,omitempty"`      // burst: number of VAAs published back to back
	Slow    bool        `json:"slow,omitempty"`   // subscribe: the stream takes a little while per message (a healthy but slower reader)
	NoWait  bool        `json:"nowait,omitempty"` // publish: do not wait for the deliveries (part of a burst)
}

type c20Case struct {
	Ops []c20Op `json:"ops"`
}

func c20Addr(i int) vaa.Address {
	if i < 0 {
		return vaa.Address{} // the all-zero emitter (with chain 0: what an uninitialised filter would match)
	}
	return vaa.Address{31: byte(1 + i%3), 0: byte(i % 3)}
}

type fakeStream struct {
	grpc.ServerStream
	ctx    context.Context
	cancel context.CancelFunc
	mu     sync.Mutex
	got    [][]byte
	gate   chan struct{} // closed = open; nil channel never used
	done   chan error
	slow   bool
}

func (f *fakeStream) Context() context.Context { return f.ctx }
func (f *fakeStream) Send(r *spyv1.SubscribeSignedVAAResponse) error {
	// like a gRPC stream, the message is serialised when Send is entered: what happens to the caller's buffer
	// afterwards does not reach the client
	vaaBytes := append([]byte{}, r.VaaBytes...)
	f.mu.Lock()
	g := f.gate
	f.mu.Unlock()
	select {
	case <-g:
	case <-f.ctx.Done():
		return f.ctx.Err()
	}
	if f.slow {
		time.Sleep(30 * time.Microsecond)
	}
	f.mu.Lock()
	f.got = append(f.got, vaaBytes)
	f.mu.Unlock()
	return nil
}
func (f *fakeStream) stall() {
	f.mu.Lock()
	f.gate = make(chan struct{})
	f.mu.Unlock()
}
func (f *fakeStream) resume() {
	f.mu.Lock()
	select {
	case <-f.gate:
	default:
		close(f.gate)
	}
	f.mu.Unlock()
}
func (f *fakeStream) count() int {
	f.mu.Lock()
	defer f.mu.Unlock()
	return len(f.got)
}

type c20Sub struct {
	st      *fakeStream
	filters []c20Filter
	want    [][]byte // what a healthy subscriber must have received (reference filter)
	stalled bool
	gone    bool
	sent    int // deliveries Publish made to this subscriber (one per matching filter)
}

// unread: deliveries that have not reached the stream yet (measured, not assumed)
func (sb *c20Sub) unread() int { return sb.sent - sb.st.count() }

func open() chan struct{} { c := make(chan struct{}); close(c); return c }

func within(d time.Duration, f func()) bool {
	done := make(chan struct{})
	go func() { f(); close(done) }()
	select {
	case <-done:
		return true
	case <-time.After(d):
		return false
	}
}

func runC20(c c20Case) (*vh.Violation, vh.Outcome) {
	out := vh.Outcome{}
	known := strings.Contains(","+os.Getenv("VERIF_KNOWN")+",", ","+c20Known+",")
	s := newSpyServer(zap.NewNop())
	var subs []*c20Sub
	defer func() {
		for _, sb := range subs {
			sb.st.cancel()
			sb.st.resume()
		}
	}()
	const deadline = 2 * time.Second
	nSubs := func() int { s.subsMu.Lock(); defer s.subsMu.Unlock(); return len(s.subs) }
	blocked := func(what string, i int) *vh.Violation {
		// is a stalled / disconnected subscriber with unread VAAs around? then this is the known root cause
		for _, sb := range subs {
			if (sb.stalled || sb.gone) && sb.unread() >= 3 {
				return vh.V(c20Known, "op %d: %s did not complete within %v while a subscriber that stopped reading has %d undelivered VAAs", i, what, deadline, sb.unread())
			}
		}
		return vh.V("C20/operation-blocked", "op %d: %s did not complete within %v although no subscriber is stalled", i, what, deadline)
	}
	stallSeen, multi := false, false
	seq := uint64(0)
	// a burst is a run of publishes that do not wait for their deliveries, followed by one wait for all of them
	var ops []c20Op
	for _, o := range c.Ops {
		if o.K == "burst" {
			for j := 0; j < o.N; j++ {
				ops = append(ops, c20Op{K: "publish", Chain: o.Chain, Addr: o.Addr, NoWait: true})
			}
			ops = append(ops, c20Op{K: "sync"})
			out.Labels = append(out.Labels, "burst")
			continue
		}
		ops = append(ops, o)
	}
	waitDelivered := func(i int, o c20Op) *vh.Violation {
		for k, sb := range subs {
			if sb.gone || sb.stalled {
				continue
			}
			okc := false
			for t0 := time.Now(); time.Since(t0) < deadline; time.Sleep(100 * time.Microsecond) {
				if collapsed(sb.st) >= len(sb.want) {
					okc = true
					break
				}
			}
			if !okc {
				return vh.V("C20/not-delivered", "op %d: subscriber %d (filters %v) did not receive a published VAA it must get (emitter %d/%d, decodable=%v); it has %d of %d", i, k, sb.filters, o.Chain, o.Addr, !o.Bad, collapsed(sb.st), len(sb.want))
			}
		}
		return nil
	}
	for i, o := range ops {
		switch o.K {
		case "sync":
			if v := waitDelivered(i, o); v != nil {
				return v, out
			}
		case "subscribe":
			ctx, cancel := context.WithCancel(context.Background())
			st := &fakeStream{ctx: ctx, cancel: cancel, gate: open(), done: make(chan error, 1), slow: o.Slow}
			req := &spyv1.SubscribeSignedVAARequest{}
			for _, f := range o.Filters {
				a := c20Addr(f.Addr)
				req.Filters = append(req.Filters, &spyv1.FilterEntry{Filter: &spyv1.FilterEntry_EmitterFilter{EmitterFilter: &spyv1.EmitterFilter{ChainId: publicrpcv1.ChainID(f.Chain), EmitterAddress: hex.EncodeToString(a[:])}}})
			}
			before := -1
			if !within(deadline, func() { before = nSubs() }) {
				return blocked("reading the subscription table", i), out
			}
			go func() { st.done <- s.SubscribeSignedVAA(req, st) }()
			ok := false
			for t0 := time.Now(); time.Since(t0) < deadline; time.Sleep(200 * time.Microsecond) {
				n := -1
				if within(deadline, func() { n = nSubs() }) && n == before+1 {
					ok = true
					break
				}
			}
			sb := &c20Sub{st: st, filters: o.Filters}
			subs = append(subs, sb)
			if !ok {
				return blocked("registering a subscription", i), out
			}
			if len(subs) >= 2 {
				for _, a := range subs[:len(subs)-1] {
					if fmt.Sprint(a.filters) != fmt.Sprint(sb.filters) {
						multi = true
					}
				}
			}
		case "publish":
			seq++
			var b []byte
			var ec vaa.ChainID
			var ea vaa.Address
			if o.Bad {
				b = append([]byte{9, 9}, vh.Expand(seq, 40)...)
			} else {
				ec, ea = vaa.ChainID(o.Chain), c20Addr(o.Addr)
				v := &vaa.VAA{Version: 1, Timestamp: time.Unix(int64(seq), 0), Sequence: seq, EmitterChain: ec, EmitterAddress: ea, Payload: []byte{byte(seq), 1}}
				b, _ = v.Marshal()
			}
			// deliveries: how many times Publish sends this VAA to the subscriber (once per matching filter)
			deliveries := func(sb *c20Sub) int {
				if len(sb.filters) == 0 {
					return 1
				}
				if o.Bad {
					return 0
				}
				n := 0
				for _, f := range sb.filters {
					if vaa.ChainID(f.Chain) == ec && c20Addr(f.Addr) == ea {
						n++
					}
				}
				return n
			}
			matches := func(sb *c20Sub) bool { return deliveries(sb) > 0 }
			// exclusion of the known finding by construction: a third unread VAA for a subscriber that stopped reading
			if known {
				skip := false
				for _, sb := range subs {
					if (sb.stalled || sb.gone && sb.unread() > 0) && matches(sb) && sb.unread()+deliveries(sb) > 2 {
						skip = true // the third undelivered send to a subscriber that stopped reading blocks Publish: the known finding
					}
				}
				if skip {
					out.Labels = append(out.Labels, "excluded-by-known-finding")
					continue
				}
			}
			var perr error
			if !within(deadline, func() { perr = s.Publish(b) }) {
				for _, sb := range subs {
					if matches(sb) {
						sb.sent += deliveries(sb)
					}
				}
				return blocked("Publish", i), out
			}
			_ = perr
			for _, sb := range subs {
				if sb.gone {
					continue
				}
				if matches(sb) {
					sb.want = append(sb.want, b)
					sb.sent += deliveries(sb)
				}
			}
			// every healthy subscriber receives it
			if !o.NoWait {
				if v := waitDelivered(i, o); v != nil {
					return v, out
				}
			}
		case "stall":
			if len(subs) > 0 {
				sb := subs[o.Sub%len(subs)]
				if !sb.gone && !sb.stalled {
					sb.st.stall()
					sb.stalled = true
					stallSeen = true
				}
			}
		case "resume":
			if len(subs) > 0 {
				sb := subs[o.Sub%len(subs)]
				if sb.stalled && !sb.gone {
					sb.st.resume()
					sb.stalled = false
				}
			}
		case "disconnect":
			if len(subs) > 0 {
				sb := subs[o.Sub%len(subs)]
				if !sb.gone {
					sb.gone = true
					stallSeen = true
					sb.st.cancel()
					select {
					case <-sb.st.done:
						sb.sent = sb.st.count()
					case <-time.After(deadline):
						return blocked("removing a disconnected subscription", i), out
					}
				}
			}
		}
	}
	// final comparison for every subscriber that is healthy at the end
	for k, sb := range subs {
		if sb.gone || sb.stalled {
			continue
		}
		for t0 := time.Now(); time.Since(t0) < deadline && collapsed(sb.st) < len(sb.want); time.Sleep(200 * time.Microsecond) {
		}
		got := collapse(sb.st)
		if len(got) != len(sb.want) {
			return vh.V("C20/wrong-delivery", "subscriber %d (filters %v) received %d VAAs, the reference filter says %d", k, sb.filters, len(got), len(sb.want)), out
		}
		for j := range got {
			if !bytes.Equal(got[j], sb.want[j]) {
				return vh.V("C20/wrong-delivery", "subscriber %d (filters %v): VAA %d differs from the published sequence filtered by (no filters or some filter == (chain, address))", k, sb.filters, j), out
			}
		}
	}
	out.NonTrivial = multi && stallSeen
	return nil, out
}

// collapse removes consecutive duplicates (a subscriber with duplicate filters legitimately gets a VAA per matching filter).
func collapse(f *fakeStream) [][]byte {
	f.mu.Lock()
	defer f.mu.Unlock()
	var out [][]byte
	for _, b := range f.got {
		if len(out) == 0 || !bytes.Equal(out[len(out)-1], b) {
			out = append(out, b)
		}
	}
	return out
}
func collapsed(f *fakeStream) int { return len(collapse(f)) }

func genC20(t *rapid.T) c20Case {
	fg := rapid.Custom(func(t *rapid.T) c20Filter {
		return c20Filter{Chain: rapid.SampledFrom([]uint16{1, 2, 255, 257, 10001}).Draw(t, "chain"), Addr: rapid.IntRange(0, 2).Draw(t, "addr")}
	})
	op := rapid.Custom(func(t *rapid.T) c20Op {
		switch rapid.SampledFrom([]string{"subscribe", "publish", "publish", "publish", "publish", "stall", "resume", "disconnect", "burst"}).Draw(t, "k") {
		case "subscribe":
			return c20Op{K: "subscribe", Filters: rapid.SliceOfN(fg, 0, 3).Draw(t, "filters"), Slow: rapid.IntRange(0, 2).Draw(t, "slow") == 0}
		case "burst":
			return c20Op{K: "burst", Chain: rapid.SampledFrom([]uint16{1, 2, 255, 257}).Draw(t, "chain"), Addr: rapid.IntRange(0, 2).Draw(t, "addr"), N: rapid.SampledFrom([]int{3, 20, 60, 150}).Draw(t, "n")}
		case "stall":
			return c20Op{K: "stall", Sub: rapid.IntRange(0, 5).Draw(t, "sub")}
		case "resume":
			return c20Op{K: "resume", Sub: rapid.IntRange(0, 5).Draw(t, "sub")}
		case "disconnect":
			return c20Op{K: "disconnect", Sub: rapid.IntRange(0, 5).Draw(t, "sub")}
		}
		return c20Op{K: "publish", Chain: rapid.SampledFrom([]uint16{1, 2, 255, 0, 257, 10001, 17}).Draw(t, "chain"), Addr: rapid.IntRange(-1, 2).Draw(t, "addr"), Bad: rapid.IntRange(0, 9).Draw(t, "bad") == 0}
	})
	c := c20Case{Ops: []c20Op{{K: "subscribe", Filters: rapid.SliceOfN(fg, 0, 2).Draw(t, "f0")}}}
	c.Ops = append(c.Ops, rapid.SliceOfN(op, 2, 40).Draw(t, "ops")...)
	n := 0
	for i := range c.Ops {
		if c.Ops[i].K == "subscribe" {
			n++
			if n > 6 {
				c.Ops[i] = c20Op{K: "publish", Chain: 1, Addr: 0}
			}
		}
	}
	return c
}

func TestVerif_C20_Spy(t *testing.T) {
	vh.Check(t, vh.Prop[c20Case]{ID: "C20", Gen: genC20, Run: runC20})
}
