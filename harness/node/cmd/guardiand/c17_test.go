//go:build verif

package guardiand

import (
	"context"
	"fmt"
	"testing"
	"time"

	"github.com/alephium/wormhole-fork/node/pkg/common"
	gossipv1 "github.com/alephium/wormhole-fork/node/pkg/proto/gossip/v1"
	"github.com/alephium/wormhole-fork/node/pkg/vaa"
	vh "github.com/alephium/wormhole-fork/node/zzverif"
	"github.com/benbjohnson/clock"
	"go.uber.org/zap"
	"pgregory.net/rapid"
)

// C17: the re-observation dispatcher under a mock clock, with watcher queues the script may
// leave undrained.

type c17Op struct {
	K     string `json:"k"` // request | advance | drain | flood (Secs = number of requests)
	Chain uint32 `json:"chain,omitempty"`
	Tx    int    `json:"tx,omitempty"`
	Secs  int    `json:"secs,omitempty"`
}

type c17Case struct {
	Caps []int   `json:"caps"` // capacity of the queue of known chain i (chain ids 1,2,4)
	Ops  []c17Op `json:"ops"`
}

var c17Known = []uint32{1, 2, 4}

const c17Window = 11 * time.Minute
const c17Slack = 18 * time.Minute // window + one 7-minute purge period

func runC17(c c17Case, barriers int) (*vh.Violation, vh.Outcome, bool) {
	out := vh.Outcome{}
	ctx, cancel := context.WithCancel(context.Background())
	defer cancel()
	mock := clock.NewMock()
	in := make(chan *gossipv1.ObservationRequest)
	queues := map[vaa.ChainID]chan *gossipv1.ObservationRequest{}
	for i, ch := range c17Known {
		queues[vaa.ChainID(ch)] = make(chan *gossipv1.ObservationRequest, c.Caps[i%len(c.Caps)])
	}
	go handleReobservationRequests(ctx, mock, zap.NewNop(), in, queues)

	nBarrier := 0
	send := func(r *gossipv1.ObservationRequest) *vh.Violation {
		select {
		case in <- r:
			return nil
		case <-time.After(2 * time.Second):
			return vh.V("C17/dispatcher-blocked", "sending a request to the dispatcher did not return within 2 s (queues: %s)", qlens(queues))
		}
	}
	// a request for a chain without watcher is "dropped without being remembered": used as a barrier that
	// returns only when the dispatcher is back in its select
	barrier := func(n int) *vh.Violation {
		for i := 0; i < n; i++ {
			nBarrier++
			if v := send(&gossipv1.ObservationRequest{ChainId: 9999, TxHash: []byte(fmt.Sprintf("barrier-%d", nBarrier))}); v != nil {
				return v
			}
		}
		return nil
	}
	type key struct {
		chain uint32
		tx    int
	}
	lastFwd := map[key]time.Time{}
	suppressed, reforwarded := false, false
	soft := false // a failure that could be schedule noise (tick not yet consumed)
	for i, o := range c.Ops {
		switch o.K {
		case "advance":
			rest := time.Duration(o.Secs) * time.Second
			for rest > 0 {
				step := rest
				if step > 6*time.Minute {
					step = 6 * time.Minute
				}
				mock.Add(step)
				rest -= step
				if v := barrier(barriers); v != nil {
					return v, out, false
				}
			}
		case "drain":
			q := queues[vaa.ChainID(o.Chain)]
			for q != nil && len(q) > 0 {
				<-q
			}
		case "flood": // many requests for distinct other transactions, each forwarded (the watcher keeps up): volume must not erase what is remembered
			q := queues[vaa.ChainID(o.Chain)]
			if q == nil || cap(q) == 0 {
				continue
			}
			out.Labels = append(out.Labels, "flood")
			for j := 0; j < o.Secs; j++ {
				for len(q) > 0 {
					<-q
				}
				fid := 100000 + 10000*(o.Tx%50) + j // flood transactions have ids of their own: (chain, Tx) can be asked for again later
				before := len(q)
				if v := send(&gossipv1.ObservationRequest{ChainId: o.Chain, TxHash: c17Tx(fid)}); v != nil {
					return v, out, false
				}
				if v := barrier(1); v != nil {
					return v, out, false
				}
				if len(q) > before {
					lastFwd[key{o.Chain, fid}] = mock.Now() // forwarded now: remembered from now
				}
			}
			for len(q) > 0 {
				<-q
			}
		case "request":
			tx := c17Tx(o.Tx)
			req := &gossipv1.ObservationRequest{ChainId: o.Chain, TxHash: tx}
			before := map[vaa.ChainID]int{}
			for ch, q := range queues {
				before[ch] = len(q)
			}
			if v := send(req); v != nil {
				return v, out, false
			}
			if v := barrier(1); v != nil {
				return v, out, false
			}
			now := mock.Now()
			q, known := queues[vaa.ChainID(o.Chain)]
			if o.Chain > 65535 {
				known = false
				q = nil
			}
			// nothing may ever reach another chain's queue
			for ch, qq := range queues {
				if (!known || ch != vaa.ChainID(o.Chain)) && len(qq) != before[ch] {
					return vh.V("C17/forwarded-to-wrong-chain", "op %d: request naming chain %d changed the queue of chain %d", i, o.Chain, ch), out, false
				}
			}
			if !known {
				out.Labels = append(out.Labels, "unknown-chain")
				continue
			}
			got := len(q) - before[vaa.ChainID(o.Chain)]
			if got < 0 || got > 1 {
				return vh.V("C17/forwarded-more-than-once", "op %d: queue of chain %d grew by %d", i, o.Chain, got), out, false
			}
			k := key{o.Chain, o.Tx}
			last, seen := lastFwd[k]
			age := now.Sub(last)
			room := before[vaa.ChainID(o.Chain)] < cap(q)
			switch {
			case seen && age <= c17Window:
				suppressed = true
				if got != 0 {
					return vh.V("C17/duplicate-forwarded-within-window", "op %d: (chain %d, tx %d) was forwarded again %v after the previous forward", i, o.Chain, o.Tx, age), out, false
				}
			case seen && age <= c17Slack:
				// either outcome is acceptable here
				if got == 1 {
					lastFwd[k] = now
				}
			default:
				if !room {
					out.Labels = append(out.Labels, "dropped-queue-full")
					if got != 0 {
						return vh.V("C17/forwarded-into-full-queue", "op %d: queue was full", i), out, false
					}
					continue // dropped: must leave no trace, lastFwd unchanged
				}
				if got != 1 {
					why := "never forwarded before"
					if seen {
						why = fmt.Sprintf("last forwarded %v ago, beyond the suppression window", age)
						soft = true
					} else {
						soft = false
					}
					return vh.V("C17/request-not-forwarded", "op %d: (chain %d, tx %d) was not forwarded although its watcher queue had room (%s)", i, o.Chain, o.Tx, why), out, soft
				}
				if seen {
					reforwarded = true
				}
				lastFwd[k] = now
			}
			if got == 1 {
				// the forwarded element is the request itself, at the tail
				n := len(q)
				var tail *gossipv1.ObservationRequest
				for j := 0; j < n; j++ {
					x := <-q
					q <- x
					tail = x
				}
				if tail == nil || tail.ChainId != o.Chain || string(tail.TxHash) != string(tx) {
					return vh.V("C17/forwarded-wrong-request", "op %d: queue tail is not the request just sent", i), out, false
				}
			}
		}
	}
	out.NonTrivial = suppressed && reforwarded
	return nil, out, false
}

// c17Tx: transaction ids of different shapes. 0/1 share their last 32 bytes, 2/3 differ by a leading zero byte: all
// are different transactions.
func c17Tx(k int) []byte {
	switch k {
	case 0:
		return vh.Expand(1717, 32)
	case 1:
		return append([]byte{0x01}, vh.Expand(1717, 32)...)
	case 2:
		return []byte{0xe5, 0x9c}
	case 3:
		return []byte{0x00, 0xe5, 0x9c}
	}
	return []byte(fmt.Sprintf("tx-%d", k))
}

func qlens(qs map[vaa.ChainID]chan *gossipv1.ObservationRequest) string {
	s := ""
	for ch, q := range qs {
		s += fmt.Sprintf("%d:%d/%d ", ch, len(q), cap(q))
	}
	return s
}

func genC17(t *rapid.T) c17Case {
	c := c17Case{Caps: rapid.SliceOfN(rapid.IntRange(0, 3), 3, 3).Draw(t, "caps")}
	op := rapid.Custom(func(t *rapid.T) []c17Op {
		switch rapid.SampledFrom([]string{"request", "request", "request", "request", "advance", "advance", "drain", "window", "window", "flood", "flood-lapse", "dup-while-full"}).Draw(t, "k") {
		case "advance":
			return []c17Op{{K: "advance", Secs: rapid.OneOf(rapid.IntRange(1, 1500), rapid.SampledFrom([]int{60, 300, 420, 659, 660, 661, 1079, 1080, 1081, 1140})).Draw(t, "secs")}}
		case "drain":
			return []c17Op{{K: "drain", Chain: rapid.SampledFrom(c17Known).Draw(t, "chain")}}
		case "flood":
			ch := rapid.SampledFrom(c17Known).Draw(t, "chain")
			tx := rapid.IntRange(0, 5).Draw(t, "tx")
			return []c17Op{{K: "drain", Chain: ch}, {K: "request", Chain: ch, Tx: tx}, {K: "flood", Chain: rapid.SampledFrom(c17Known).Draw(t, "fchain"), Secs: rapid.SampledFrom([]int{40, 300, 1100, 1600}).Draw(t, "n")},
				{K: "advance", Secs: rapid.IntRange(1, 600).Draw(t, "in")}, {K: "request", Chain: ch, Tx: tx}}
		case "dup-while-full": // a transaction is forwarded; its repeat arrives while that watcher's queue is full; the queue drains; it is asked for again
			ch := rapid.SampledFrom(c17Known).Draw(t, "chain")
			tx := rapid.IntRange(0, 5).Draw(t, "tx")
			out := []c17Op{{K: "drain", Chain: ch}, {K: "request", Chain: ch, Tx: tx}}
			for j := 0; j < 3; j++ { // capacities are 0..3: three more fill any queue
				out = append(out, c17Op{K: "request", Chain: ch, Tx: 20 + j})
			}
			return append(out, c17Op{K: "request", Chain: ch, Tx: tx}, c17Op{K: "drain", Chain: ch}, c17Op{K: "advance", Secs: rapid.IntRange(1, 500).Draw(t, "in")}, c17Op{K: "request", Chain: ch, Tx: tx})
		case "flood-lapse": // many transactions forwarded at once, the window lapses for all of them, some are asked for again
			ch := rapid.SampledFrom(c17Known).Draw(t, "chain")
			fl := rapid.IntRange(0, 3).Draw(t, "floodid")
			n := rapid.SampledFrom([]int{30, 600, 1300}).Draw(t, "n")
			out := []c17Op{{K: "flood", Chain: ch, Tx: fl, Secs: n}, {K: "advance", Secs: rapid.IntRange(1081, 1500).Draw(t, "out")}, {K: "drain", Chain: ch}}
			for _, j := range []int{0, n / 3, n / 2, n - 2, n - 1} {
				out = append(out, c17Op{K: "request", Chain: ch, Tx: 100000 + 10000*fl + j}, c17Op{K: "drain", Chain: ch})
			}
			return out
		case "window": // forward, repeat inside the window, let the window lapse, repeat
			ch := rapid.SampledFrom(c17Known).Draw(t, "chain")
			tx := rapid.IntRange(0, 5).Draw(t, "tx")
			return []c17Op{{K: "drain", Chain: ch}, {K: "request", Chain: ch, Tx: tx}, {K: "advance", Secs: rapid.IntRange(1, 660).Draw(t, "in")},
				{K: "request", Chain: ch, Tx: tx}, {K: "drain", Chain: ch}, {K: "advance", Secs: rapid.IntRange(1081, 1500).Draw(t, "out")}, {K: "request", Chain: ch, Tx: tx}}
		}
		return []c17Op{{K: "request", Chain: rapid.SampledFrom([]uint32{1, 1, 2, 2, 4, 3, 65537, 65538, 131074}).Draw(t, "chain"), Tx: rapid.IntRange(0, 5).Draw(t, "tx")}}
	})
	for _, g := range rapid.SliceOfN(op, 2, 20).Draw(t, "ops") {
		c.Ops = append(c.Ops, g...)
	}
	return c
}

func TestVerif_C17_Dispatcher(t *testing.T) {
	vh.Check(t, vh.Prop[c17Case]{ID: "C17", Gen: genC17, Run: func(c c17Case) (*vh.Violation, vh.Outcome) {
		v, o, soft := runC17(c, 8)
		if v != nil && soft {
			// the purge tick may not have been consumed yet: re-execute with a much longer settle before it counts
			v2, o2, _ := runC17(c, 60)
			if v2 == nil {
				o2.Labels = append(o2.Labels, "schedule-noise-retried")
				return nil, o2
			}
			return v2, o2
		}
		return v, o
	}})
}

// PostObservationRequest: full queue fails immediately, otherwise exactly one element is enqueued.
func TestVerif_C17_Post(t *testing.T) {
	type pc struct {
		Cap  int `json:"cap"`
		Fill int `json:"fill"`
		N    int `json:"n"`
	}
	vh.Check(t, vh.Prop[pc]{ID: "C17", Gen: func(t *rapid.T) pc {
		cp := rapid.IntRange(0, 60).Draw(t, "cap")
		return pc{Cap: cp, Fill: rapid.IntRange(0, cp).Draw(t, "fill"), N: rapid.IntRange(1, 70).Draw(t, "n")}
	}, Run: func(c pc) (*vh.Violation, vh.Outcome) {
		ch := make(chan *gossipv1.ObservationRequest, c.Cap)
		for i := 0; i < c.Fill; i++ {
			ch <- &gossipv1.ObservationRequest{ChainId: 1}
		}
		o := vh.Outcome{NonTrivial: c.Fill+c.N > c.Cap}
		for i := 0; i < c.N; i++ {
			before := len(ch)
			done := make(chan error, 1)
			go func() {
				done <- common.PostObservationRequest(ch, &gossipv1.ObservationRequest{ChainId: 2, TxHash: []byte{byte(i)}})
			}()
			select {
			case err := <-done:
				if before == c.Cap {
					if err != common.ErrChanFull || len(ch) != before {
						return vh.V("C17/post-full-queue", "posting to a full queue returned %v and the queue went from %d to %d", err, before, len(ch)), o
					}
				} else if err != nil || len(ch) != before+1 {
					return vh.V("C17/post-enqueue", "posting to a queue with room returned %v and the queue went from %d to %d", err, before, len(ch)), o
				}
			case <-time.After(2 * time.Second):
				return vh.V("C17/post-blocked", "PostObservationRequest blocked on a queue holding %d of %d", before, c.Cap), o
			}
		}
		return nil, o
	}})
}
