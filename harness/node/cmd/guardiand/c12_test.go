//go:build verif

package guardiand

import (
	"context"
	"encoding/hex"
	"fmt"
	"os"
	"path/filepath"
	"sort"
	"sync"
	"testing"
	"time"

	"github.com/alephium/wormhole-fork/node/pkg/db"
	nodev1 "github.com/alephium/wormhole-fork/node/pkg/proto/node/v1"
	"github.com/alephium/wormhole-fork/node/pkg/vaa"
	vh "github.com/alephium/wormhole-fork/node/zzverif"
	"go.uber.org/zap"
	"pgregory.net/rapid"
)

// C12 through the admin RPC: FindMissingMessages for one stream must not be influenced by the
// VAAs of any other emitter, target chain or sequence in the same store.

var fmChains = []uint32{0, 1, 2, 4, 10, 11, 17, 25, 42, 255, 256, 10001, 65535}

type fmStore struct {
	EC, TC int
	Addr   int
	Seq    uint64
}

type fmCase struct {
	Stores []fmStore `json:"stores"`
	QEC    int       `json:"qec"`
	QTC    int       `json:"qtc"`
	QAddr  int       `json:"qaddr"`
}

var (
	fmOnce sync.Once
	fmDB   *db.Database
)

func fmAddr(i int) vaa.Address { return vaa.Address{31: byte(4 + i%3*0x3c), 0: byte(i % 3)} }

func TestVerif_C12_FindMissing(t *testing.T) {
	fmOnce.Do(func() {
		dir := os.Getenv("VERIF_SCRATCH")
		if dir == "" {
			dir = os.TempDir()
		}
		dir = filepath.Join(dir, fmt.Sprintf("fmdb-%d", os.Getpid()))
		_ = os.RemoveAll(dir)
		d, err := db.Open(dir)
		if err != nil {
			panic(err)
		}
		fmDB = d
	})
	vh.Check(t, vh.Prop[fmCase]{ID: "C12", Gen: func(t *rapid.T) fmCase {
		groups := [][]int{{2, 7, 9, 10}, {1, 4, 5, 6, 11}, {3, 8}, {0, 12, 2, 9}}
		g := rapid.SampledFrom(groups).Draw(t, "g")
		st := rapid.Custom(func(t *rapid.T) fmStore {
			return fmStore{EC: rapid.SampledFrom(g).Draw(t, "ec"), TC: rapid.SampledFrom(g).Draw(t, "tc"), Addr: rapid.IntRange(0, 2).Draw(t, "addr"), Seq: rapid.Uint64Range(0, 25).Draw(t, "seq")}
		})
		return fmCase{Stores: rapid.SliceOfN(st, 1, 25).Draw(t, "stores"), QEC: rapid.SampledFrom(g).Draw(t, "qec"), QTC: rapid.SampledFrom(g).Draw(t, "qtc"), QAddr: rapid.IntRange(0, 2).Draw(t, "qaddr")}
	}, Run: func(c fmCase) (*vh.Violation, vh.Outcome) {
		o := vh.Outcome{}
		var ids []vaa.VAAID
		defer func() {
			for _, id := range ids {
				_ = fmDB.VerifDelete(id)
			}
		}()
		present := map[uint64]bool{}
		others := false
		for _, s := range c.Stores {
			v := &vaa.VAA{Version: 1, Timestamp: time.Unix(1000, 0), Sequence: s.Seq, EmitterChain: vaa.ChainID(fmChains[s.EC]), TargetChain: vaa.ChainID(fmChains[s.TC]), EmitterAddress: fmAddr(s.Addr), Payload: []byte{1}}
			v.AddSignature(vh.Key(0), 0)
			if err := fmDB.StoreSignedVAA(v); err != nil {
				return vh.V("C12/store-failed", "%v", err), o
			}
			ids = append(ids, *db.VaaIDFromVAA(v))
			if s.EC == c.QEC && s.TC == c.QTC && s.Addr == c.QAddr {
				present[s.Seq] = true
			} else {
				others = true
			}
		}
		o.NonTrivial = others && len(present) > 0
		svc := &nodePrivilegedService{db: fmDB, logger: zap.NewNop()}
		qa := fmAddr(c.QAddr)
		resp, err := svc.FindMissingMessages(context.Background(), &nodev1.FindMissingMessagesRequest{EmitterChain: fmChains[c.QEC], TargetChain: fmChains[c.QTC], EmitterAddress: hex.EncodeToString(qa[:])})
		if err != nil {
			return vh.V("C12/find-missing-error", "%v", err), o
		}
		var last uint64
		for s := range present {
			if s > last {
				last = s
			}
		}
		var want []string
		for i := uint64(0); i <= last; i++ {
			if !present[i] {
				want = append(want, fmt.Sprintf("%d/%s/%d/%d", fmChains[c.QEC], qa, fmChains[c.QTC], i))
			}
		}
		got := append([]string{}, resp.MissingMessages...)
		sort.Strings(got)
		sort.Strings(want)
		if resp.FirstSequence != 0 || resp.LastSequence != last || fmt.Sprint(got) != fmt.Sprint(want) {
			return vh.V("C12/find-missing-mixes-streams", "FindMissingMessages(%d/%s/%d): first=%d last=%d missing=%v; the stream holds %d sequences up to %d, so missing should be %v",
				fmChains[c.QEC], qa, fmChains[c.QTC], resp.FirstSequence, resp.LastSequence, got, len(present), last, want), o
		}
		return nil, o
	}})
}
