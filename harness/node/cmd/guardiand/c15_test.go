//go:build verif

package guardiand

import (
	"bytes"
	"context"
	"encoding/binary"
	"encoding/hex"
	"fmt"
	"math/big"
	"strings"
	"testing"
	"time"

	nodev1 "github.com/alephium/wormhole-fork/node/pkg/proto/node/v1"
	"github.com/alephium/wormhole-fork/node/pkg/vaa"
	vh "github.com/alephium/wormhole-fork/node/zzverif"
	ethcommon "github.com/ethereum/go-ethereum/common"
	"go.uber.org/zap"
	"pgregory.net/rapid"
)

// C15: every governance request either is rejected or becomes a VAA from the governance emitter
// whose payload the extracted Ralph parsers read back as exactly the requested values.

var c15GovChain = vaa.ChainID(1)
var c15GovAddr = vaa.Address{31: 4}

type hexArg struct {
	Len  int    `json:"len"` // bytes
	Seed uint64 `json:"seed"`
	Odd  bool   `json:"odd,omitempty"` // odd number of hex digits
	Bad  bool   `json:"bad,omitempty"` // a non-hex character
	Up   bool   `json:"up,omitempty"`  // upper case
	Pfx  bool   `json:"pfx,omitempty"` // 0x prefix
	Sign int    `json:"sign,omitempty"` // 1, 2: the first digit is replaced by '-' / '+' (same length, not hex)
}

func (h hexArg) String() string {
	s := hex.EncodeToString(vh.Expand(h.Seed, h.Len))
	if h.Up {
		s = strings.ToUpper(s)
	}
	if h.Odd && len(s) > 0 {
		s = s[1:]
	}
	if h.Bad && len(s) > 0 {
		s = s[:len(s)/2] + "g" + s[len(s)/2+1:]
	}
	if h.Sign > 0 && len(s) > 0 {
		s = string("-+"[(h.Sign-1)%2]) + s[1:]
	}
	if h.Pfx {
		s = "0x" + s
	}
	return s
}

type c15Case struct {
	Kind    int      `json:"kind"` // 1..9 as in the statement; 0 = message without payload
	Cur     uint32   `json:"cur"`
	Ts      uint32   `json:"ts"`
	Nonce   uint32   `json:"nonce"`
	Seq     uint64   `json:"seq"`
	Target  uint32   `json:"target"`
	H1      hexArg   `json:"h1"`
	H2      hexArg   `json:"h2"`
	Module  string   `json:"module"`
	Chain   uint32   `json:"chain"`
	CL      uint32   `json:"cl"`
	Seqs    []uint64 `json:"seqs"`
	NSeqBig int      `json:"nseqbig"`           // if > 0: that many sequences (derived), ignoring Seqs
	Guards  []int    `json:"guards"`            // pool key index; negative = malformed pubkey string
	PkStyle int      `json:"pkstyle,omitempty"` // how the guardian keys are spelled (0 = all "0x" + checksummed hex)
	Upg     int      `json:"upg"`               // contract-upgrade payload form: 0 raw hex, 1 code only, 2 code+state
	ViaRPC  bool     `json:"viarpc"`
}

func (c c15Case) seqs() []uint64 {
	if c.NSeqBig > 0 {
		out := make([]uint64, c.NSeqBig)
		for i := range out {
			out[i] = uint64(i) * 3
		}
		return out
	}
	return c.Seqs
}

func (c c15Case) upgradePayload() (string, []byte, bool) {
	if c.Upg == 0 {
		return c.H1.String(), nil, false
	}
	code := vh.Expand(c.H1.Seed, c.H1.Len%3000)
	var b []byte
	b = binary.BigEndian.AppendUint16(b, uint16(len(code)))
	b = append(b, code...)
	if c.Upg == 2 {
		b = append(b, make([]byte, 32)...) // prevStateHash (will not match: the contract then aborts with ContractStateMismatch, a semantic abort)
		imm := vh.Expand(c.H2.Seed, c.H2.Len%200)
		b = binary.BigEndian.AppendUint16(b, uint16(len(imm)))
		b = append(b, imm...)
		b = binary.BigEndian.AppendUint16(b, 3)
		b = append(b, 1, 2, 3)
	}
	return hex.EncodeToString(b), code, true
}

func (c c15Case) message() *nodev1.GovernanceMessage {
	m := &nodev1.GovernanceMessage{Sequence: c.Seq, Nonce: c.Nonce, TargetChainId: c.Target}
	switch c.Kind {
	case 1:
		m.Payload = &nodev1.GovernanceMessage_UpdateMessageFee{UpdateMessageFee: &nodev1.UpdateMessageFee{NewMessageFee: c.H1.String()}}
	case 2:
		m.Payload = &nodev1.GovernanceMessage_TransferFee{TransferFee: &nodev1.TransferFee{Amount: c.H1.String(), Recipient: c.H2.String()}}
	case 3:
		gs := &nodev1.GuardianSetUpgrade{}
		for i, g := range c.Guards {
			pk := vh.Addr(abs15(g)).Hex()
			// the same 20 bytes can be written with or without prefix and in either case; every spelling the
			// validation accepts names the same key (the shipped guardian configs use the bare form)
			if c.PkStyle > 0 {
				switch (c.PkStyle + i*(1+c.PkStyle/4)) % 4 {
				case 1:
					pk = strings.ToLower(pk[2:])
				case 2:
					pk = "0X" + strings.ToUpper(pk[2:])
				case 3:
					pk = pk[2:]
				}
			}
			if g < 0 {
				pk = pk[:len(pk)-1-abs15(g)%3]
			}
			gs.Guardians = append(gs.Guardians, &nodev1.GuardianSetUpgrade_Guardian{Pubkey: pk, Name: fmt.Sprintf("g%d", i)})
		}
		m.Payload = &nodev1.GovernanceMessage_GuardianSet{GuardianSet: gs}
	case 4:
		p, _, _ := c.upgradePayload()
		m.Payload = &nodev1.GovernanceMessage_ContractUpgrade{ContractUpgrade: &nodev1.ContractUpgrade{Payload: p}}
	case 5:
		m.Payload = &nodev1.GovernanceMessage_BridgeRegisterChain{BridgeRegisterChain: &nodev1.BridgeRegisterChain{Module: c.Module, ChainId: c.Chain, EmitterAddress: c.H1.String()}}
	case 6:
		p, _, _ := c.upgradePayload()
		m.Payload = &nodev1.GovernanceMessage_BridgeContractUpgrade{BridgeContractUpgrade: &nodev1.BridgeUpgradeContract{Module: c.Module, Payload: p}}
	case 7:
		m.Payload = &nodev1.GovernanceMessage_DestroyUnexecutedSequenceContracts{DestroyUnexecutedSequenceContracts: &nodev1.TokenBridgeDestroyUnexecutedSequenceContracts{EmitterChain: c.Chain, Sequences: c.seqs()}}
	case 8:
		m.Payload = &nodev1.GovernanceMessage_UpdateMinimalConsistencyLevel{UpdateMinimalConsistencyLevel: &nodev1.TokenBridgeUpdateMinimalConsistencyLevel{NewConsistencyLevel: c.CL}}
	case 9:
		m.Payload = &nodev1.GovernanceMessage_UpdateRefundAddress{UpdateRefundAddress: &nodev1.TokenBridgeUpdateRefundAddress{NewRefundAddress: c.H1.String()}}
	}
	return m
}

func abs15(x int) int {
	if x < 0 {
		return -x
	}
	return x
}

// convert calls the conversion function of the kind directly (as InjectGovernanceVAA does).
func (c c15Case) convert(m *nodev1.GovernanceMessage) (v *vaa.VAA, err error, pan any) {
	defer func() {
		if r := recover(); r != nil {
			pan = r
		}
	}()
	ts := time.Unix(int64(c.Ts), 0)
	tc := vaa.ChainID(c.Target)
	switch p := m.Payload.(type) {
	case *nodev1.GovernanceMessage_UpdateMessageFee:
		v, err = adminUpdateMessageFeeToVAA(c15GovChain, c15GovAddr, p.UpdateMessageFee, ts, c.Cur, c.Nonce, c.Seq, tc)
	case *nodev1.GovernanceMessage_TransferFee:
		v, err = adminTransferFeeToVAA(c15GovChain, c15GovAddr, p.TransferFee, ts, c.Cur, c.Nonce, c.Seq, tc)
	case *nodev1.GovernanceMessage_GuardianSet:
		v, err = adminGuardianSetUpgradeToVAA(c15GovChain, c15GovAddr, p.GuardianSet, ts, c.Cur, c.Nonce, c.Seq, tc)
	case *nodev1.GovernanceMessage_ContractUpgrade:
		v, err = adminContractUpgradeToVAA(c15GovChain, c15GovAddr, p.ContractUpgrade, ts, c.Cur, c.Nonce, c.Seq, tc)
	case *nodev1.GovernanceMessage_BridgeRegisterChain:
		v, err = tokenBridgeRegisterChain(c15GovChain, c15GovAddr, p.BridgeRegisterChain, ts, c.Cur, c.Nonce, c.Seq, tc)
	case *nodev1.GovernanceMessage_BridgeContractUpgrade:
		v, err = tokenBridgeUpgradeContract(c15GovChain, c15GovAddr, p.BridgeContractUpgrade, ts, c.Cur, c.Nonce, c.Seq, tc)
	case *nodev1.GovernanceMessage_DestroyUnexecutedSequenceContracts:
		v, err = tokenBridgeDestroyUnexecutedSequenceContracts(c15GovChain, c15GovAddr, p.DestroyUnexecutedSequenceContracts, ts, c.Cur, c.Nonce, c.Seq, tc)
	case *nodev1.GovernanceMessage_UpdateMinimalConsistencyLevel:
		v, err = tokenBridgeUpdateMinimalConsistencyLevel(c15GovChain, c15GovAddr, p.UpdateMinimalConsistencyLevel, ts, c.Cur, c.Nonce, c.Seq, tc)
	case *nodev1.GovernanceMessage_UpdateRefundAddress:
		v, err = tokenBridgeUpdateRefundAddress(c15GovChain, c15GovAddr, p.UpdateRefundAddress, ts, c.Cur, c.Nonce, c.Seq, tc)
	default:
		return nil, fmt.Errorf("no payload"), nil
	}
	return
}

// ------------------------------------------------------------------ the contract side

var layoutCodes = map[string]bool{"": true, "InvalidMessageSize": true, "InvalidModule": true, "InvalidActionId": true, "InvalidEmitChainId": true, "InvalidEmitAddress": true,
	"InvalidVersion": true, "InvalidSignature": true, "InvalidSignatureSize": true, "InvalidSignatureGuardianIndex": true, "InvalidGuardianSetIndex": true}

type contractRun struct {
	in  *vh.Interp
	err error
	ret []vh.RVal
}

func runContract(c *vh.Contracts, kind int, wire []byte, cur uint32, target uint32) contractRun {
	gov := c.File("contracts/governance.ral")
	tb := c.File("token_bridge_governance.ral")
	fac := c.File("token_bridge_factory.ral")
	signer := []ethcommon.Address{vh.Addr(0)}
	chainID := vh.U(uint64(target))
	govFields := map[string]vh.RVal{"chainId": chainID, "governanceChainId": vh.U(uint64(c15GovChain)), "governanceEmitterAddress": c15GovAddr[:], "receivedSequence": vh.U(0),
		"messageFee": vh.U(0), "guardianSetIndexes[1]": vh.U(uint64(cur)), "guardianSetIndexes[0]": vh.U(0), "guardianSets[1]": vh.GuardiansInfo(signer), "guardianSets[0]": []byte{},
		"previousGuardianSetExpirationTimeMS": vh.U(0), "tokenBridgeFactory": []byte("factory"), "ALPH": []byte{}}
	facRun := func(args []vh.RVal) ([]vh.RVal, error) {
		fi := &vh.Interp{C: c, File: fac, Fields: map[string]vh.RVal{}, Stubs: map[string]func([]vh.RVal) ([]vh.RVal, error){}}
		return fi.Call("parseContractUpgrade", args...)
	}
	govIn := &vh.Interp{C: c, File: gov, Fields: govFields}
	govIn.Stubs = map[string]func([]vh.RVal) ([]vh.RVal, error){
		"getGuardiansInfo": func(a []vh.RVal) ([]vh.RVal, error) {
			if i, ok := a[0].(*big.Int); !ok || i.Cmp(vh.U(uint64(cur))) != 0 {
				return nil, &vh.Abort{Msg: "InvalidGuardianSetIndex", Code: "InvalidGuardianSetIndex"}
			}
			return []vh.RVal{vh.GuardiansInfo(signer)}, nil
		},
		"updatePreviousGuardianSet":               func([]vh.RVal) ([]vh.RVal, error) { return nil, nil },
		"tokenBridgeFactory.parseContractUpgrade": facRun,
	}
	if gov == nil || tb == nil || fac == nil {
		return contractRun{err: fmt.Errorf("extractor mismatch: contract files missing")}
	}
	switch kind {
	case 1:
		r, err := govIn.Call("submitSetMessageFee", wire)
		return contractRun{govIn, err, r}
	case 2:
		r, err := govIn.Call("submitTransferFees", wire)
		return contractRun{govIn, err, r}
	case 3:
		r, err := govIn.Call("submitNewGuardianSet", wire)
		return contractRun{govIn, err, r}
	case 4:
		r, err := govIn.Call("submitContractUpgrade", wire)
		return contractRun{govIn, err, r}
	}
	tbFields := map[string]vh.RVal{"localChainId": chainID, "receivedSequence": vh.U(0), "sendSequence": vh.U(0), "minimalConsistencyLevel": vh.U(0), "refundAddress": []byte{},
		"governance": []byte("gov"), "tokenBridgeFactory": []byte("factory")}
	tbIn := &vh.Interp{C: c, File: tb, Fields: tbFields}
	tbIn.Stubs = map[string]func([]vh.RVal) ([]vh.RVal, error){
		"governance.parseAndVerifyGovernanceVAAGeneric": func(a []vh.RVal) ([]vh.RVal, error) {
			return govIn.Call("parseAndVerifyGovernanceVAAGeneric", a...)
		},
		"tokenBridgeFactory.parseContractUpgrade": facRun,
	}
	switch kind {
	case 5:
		r, err := tbIn.Call("parseAndVerifyRegisterChain", wire)
		return contractRun{tbIn, err, r}
	case 6:
		r, err := tbIn.Call("upgradeContract", wire)
		return contractRun{tbIn, err, r}
	case 7:
		r, err := tbIn.Call("destroyUnexecutedSequenceContracts", wire)
		return contractRun{tbIn, err, r}
	case 8:
		r, err := tbIn.Call("updateMinimalConsistencyLevel", wire)
		return contractRun{tbIn, err, r}
	case 9:
		r, err := tbIn.Call("updateRefundAddress", wire)
		return contractRun{tbIn, err, r}
	}
	return contractRun{err: fmt.Errorf("extractor mismatch: kind %d", kind)}
}

func effect(in *vh.Interp, name string) *vh.EffectCall {
	for i := range in.EffectCalls {
		if in.EffectCalls[i].Name == name {
			return &in.EffectCalls[i]
		}
	}
	return nil
}

func asInt(v vh.RVal) *big.Int {
	if n, ok := v.(*big.Int); ok {
		return n
	}
	return big.NewInt(-1)
}
func asBytes(v vh.RVal) []byte {
	b, _ := v.([]byte)
	return b
}

var c15Contracts *vh.Contracts

func leftPad32(s string) []byte {
	out := make([]byte, 32)
	copy(out[32-len(s):], s)
	return out
}

func trunc15(s string) string {
	if len(s) > 24 {
		return s[:12] + ".." + s[len(s)-8:]
	}
	return s
}

func runC15(c c15Case) (*vh.Violation, vh.Outcome) {
	o := vh.Outcome{Labels: []string{fmt.Sprintf("kind%d", c.Kind)}}
	m := c.message()
	v, err, pan := c.convert(m)
	if pan != nil {
		return vh.V("C15/panic", "conversion of a kind-%d request panicked: %v", c.Kind, pan), o
	}
	outOfRange := c.Chain > 65535 || c.CL > 255 || len(c.seqs()) > 65535 || len(c.Module) > 32 || c.H1.Odd || c.H1.Bad || c.H1.Sign > 0 || (c.Kind == 9 && c.H1.Len > 65535)
	canonical := c.Module == "TokenBridge"
	o.NonTrivial = outOfRange || (c.Kind == 5 || c.Kind == 6) && !canonical || c.Kind == 0
	if err != nil {
		o.Labels = append(o.Labels, "rejected")
		return nil, o
	}
	if (c.Kind == 1 || c.Kind == 2) && c.H1.Sign > 0 && c.H1.Len > 0 || c.Kind == 2 && c.H2.Sign > 0 && c.H2.Len > 0 {
		return vh.V("C15/malformed-hex-accepted", "a kind-%d request whose hex field starts with a sign character (%q / %q) was turned into a VAA instead of being rejected", c.Kind, trunc15(c.H1.String()), trunc15(c.H2.String())), o
	}
	if v == nil {
		return vh.V("C15/nil-without-error", "conversion returned neither a VAA nor an error"), o
	}
	o.Labels = append(o.Labels, "produced")
	// purity: same request, same digest
	if v2, err2, pan2 := c.convert(c.message()); pan2 != nil || err2 != nil || v2 == nil || v2.SigningMsg() != v.SigningMsg() {
		return vh.V("C15/not-pure", "converting the same request twice did not give the same digest"), o
	}
	// the VAA envelope
	if v.EmitterChain != c15GovChain || v.EmitterAddress != c15GovAddr {
		return vh.V("C15/wrong-emitter", "produced VAA is from %d/%s, not from the configured governance emitter", v.EmitterChain, v.EmitterAddress), o
	}
	if uint32(v.TargetChain) != c.Target&0xffff || v.Nonce != c.Nonce || v.Sequence != c.Seq || v.GuardianSetIndex != c.Cur || v.Timestamp.Unix() != int64(c.Ts) || v.Version != 1 {
		return vh.V("C15/wrong-envelope", "produced VAA header/body fields differ from the request (target %d nonce %d seq %d set %d ts %d)", v.TargetChain, v.Nonce, v.Sequence, v.GuardianSetIndex, v.Timestamp.Unix()), o
	}
	p := v.Payload
	if len(p) < 33 {
		return vh.V("C15/payload-too-short", "payload of %d bytes has no module+action header", len(p)), o
	}
	// module
	wantModule := vaa.CoreModule
	switch c.Kind {
	case 5, 6:
		if len(c.Module) > 32 {
			return vh.V("C15/value-truncated", "module name of %d bytes was accepted", len(c.Module)), o
		}
		wantModule = leftPad32(c.Module)
	case 7, 8, 9:
		wantModule = vaa.TokenBridgeModule
	}
	if !bytes.Equal(p[:32], wantModule) {
		return vh.V("C15/wrong-module", "payload module %x, want %x", p[:32], wantModule), o
	}
	// action id, from the contract sources
	ct := c15Contracts
	actionFile, actionName := "contracts/governance.ral", map[int]string{1: "NewMessageFee", 2: "TransferFee", 3: "NewGuardianSet", 4: "ContractUpgrade"}[c.Kind]
	if c.Kind >= 5 {
		actionFile = "token_bridge_governance.ral"
		actionName = map[int]string{5: "RegisterChain", 6: "ContractUpgrade", 7: "DestroyUnexecutedSequences", 8: "UpdateMinimalConsistencyLevel", 9: "UpdateRefundAddress"}[c.Kind]
	}
	an, ok := ct.File(actionFile).Consts["ActionId."+actionName]
	if !ok {
		return vh.V("harness/extractor", "ActionId.%s not found in %s", actionName, actionFile), o
	}
	ab, _ := hex.DecodeString(fmt.Sprint(an["v"]))
	if len(ab) != 1 || p[32] != ab[0] {
		return vh.V("C15/wrong-action", "payload action byte %#x, contract's ActionId.%s is %x", p[32], actionName, ab), o
	}
	if (c.Kind == 4 || c.Kind == 6) && c.Upg == 0 {
		// the operator supplies the upgrade payload verbatim: it must be carried unchanged after module+action
		want, _ := hex.DecodeString(c.H1.String())
		if !bytes.Equal(p[33:], want) {
			return vh.V("C15/value-truncated", "upgrade payload of %d bytes is carried as %d different bytes", len(want), len(p)-33), o
		}
		o.Labels = append(o.Labels, "raw-upgrade-payload")
		return nil, o
	}
	// the contract parses it back
	if (c.Kind == 5 || c.Kind == 6) && !canonical {
		o.Labels = append(o.Labels, "non-canonical-module")
		return nil, o
	}
	if c.Kind == 5 && c.Chain == c.Target {
		return nil, o // the contract refuses to register its own chain: semantic, not layout
	}
	signed := *v
	signed.Signatures = nil
	signed.AddSignature(vh.Key(0), 0)
	wire, _ := signed.Marshal()
	cr := runContract(ct, c.Kind, wire, c.Cur, c.Target&0xffff)
	if cr.err != nil {
		code, isAbort := vh.AbortCode(cr.err)
		if !isAbort {
			return vh.V("harness/extractor", "%v", cr.err), o
		}
		if layoutCodes[code] {
			return vh.V("C15/contract-cannot-parse", "the VAA produced for a kind-%d request is not parseable by the contract: %v", c.Kind, cr.err), o
		}
		o.Labels = append(o.Labels, "semantic-abort:"+code)
		if !(c.Kind == 4 || c.Kind == 6) { // upgrade payloads keep their effect comparison below only on success
			return nil, o
		}
		return nil, o
	}
	o.Labels = append(o.Labels, "contract-accepted")
	in := cr.in
	mism := func(what string, got, want any) (*vh.Violation, vh.Outcome) {
		return vh.V("C15/value-truncated", "kind %d: the contract reads %s = %v from the produced VAA, the request says %v", c.Kind, what, got, want), o
	}
	switch c.Kind {
	case 1:
		want := new(big.Int).SetBytes(vh.Expand(c.H1.Seed, c.H1.Len))
		if got := asInt(in.Fields["messageFee"]); got.Cmp(want) != 0 {
			return mism("messageFee", got, want)
		}
	case 2:
		e := effect(in, "transferTokenFromSelf!")
		if e == nil || len(e.Args) != 3 {
			return vh.V("harness/extractor", "transferTokenFromSelf! not reached"), o
		}
		if want := append([]byte{0}, vh.Expand(c.H2.Seed, c.H2.Len)...); !bytes.Equal(asBytes(e.Args[0]), want) {
			return mism("recipient", fmt.Sprintf("%x", e.Args[0]), fmt.Sprintf("%x", want))
		}
		if want := new(big.Int).SetBytes(vh.Expand(c.H1.Seed, c.H1.Len)); asInt(e.Args[2]).Cmp(want) != 0 {
			return mism("amount", e.Args[2], want)
		}
	case 3:
		if got, want := asInt(in.Fields["guardianSetIndexes[1]"]), new(big.Int).Add(vh.U(uint64(c.Cur)), big.NewInt(1)); got.Cmp(want) != 0 {
			return mism("new guardian set index", got, want)
		}
		var addrs []ethcommon.Address
		for _, g := range c.Guards {
			addrs = append(addrs, vh.Addr(abs15(g)))
		}
		if got, want := asBytes(in.Fields["guardianSets[1]"]), vh.GuardiansInfo(addrs); !bytes.Equal(got, want) {
			return mism("guardian set", fmt.Sprintf("%x", got), fmt.Sprintf("%x", want))
		}
	case 4, 6:
		_, code, structured := c.upgradePayload()
		if structured {
			e := effect(in, "migrate!")
			if e == nil {
				e = effect(in, "migrateWithFields!")
			}
			if e == nil || !bytes.Equal(asBytes(e.Args[0]), code) {
				return mism("contract code", "(differs)", fmt.Sprintf("%d bytes", len(code)))
			}
		}
	case 5:
		if len(cr.ret) != 2 {
			return vh.V("harness/extractor", "parseAndVerifyRegisterChain returned %d values", len(cr.ret)), o
		}
		if got := asInt(cr.ret[0]); got.Cmp(vh.U(uint64(c.Chain))) != 0 {
			return mism("remote chain id", got, c.Chain)
		}
		if want := vh.Expand(c.H1.Seed, c.H1.Len); !bytes.Equal(asBytes(cr.ret[1]), want) {
			return mism("remote token bridge id", fmt.Sprintf("%x", cr.ret[1]), fmt.Sprintf("%x", want))
		}
	case 7:
		sc := effect(in, "subContractId!")
		de := effect(in, "?.destroyUnexecutedSequenceContracts")
		if sc == nil || de == nil || len(asBytes(sc.Args[0])) < 2 {
			return vh.V("harness/extractor", "destroyUnexecutedSequenceContracts effects not reached"), o
		}
		path := asBytes(sc.Args[0])
		if got := binary.BigEndian.Uint16(path[len(path)-2:]); uint32(got) != c.Chain {
			return mism("emitter chain", got, c.Chain)
		}
		var want []byte
		for _, s := range c.seqs() {
			want = binary.BigEndian.AppendUint64(want, s)
		}
		if !bytes.Equal(asBytes(de.Args[0]), want) {
			return mism("sequence list", fmt.Sprintf("%d bytes", len(asBytes(de.Args[0]))), fmt.Sprintf("%d sequences", len(c.seqs())))
		}
	case 8:
		if got := asInt(in.Fields["minimalConsistencyLevel"]); got.Cmp(vh.U(uint64(c.CL))) != 0 {
			return mism("minimal consistency level", got, c.CL)
		}
	case 9:
		if want := vh.Expand(c.H1.Seed, c.H1.Len); !bytes.Equal(asBytes(in.Fields["refundAddress"]), want) {
			return mism("refund address", fmt.Sprintf("%d bytes", len(asBytes(in.Fields["refundAddress"]))), fmt.Sprintf("%d bytes", len(want)))
		}
	}
	return nil, o
}

func genHex(t *rapid.T, label string, canonLen int) hexArg {
	h := hexArg{Len: canonLen, Seed: rapid.Uint64Range(0, 1000).Draw(t, label+"seed")}
	switch rapid.IntRange(0, 9).Draw(t, label+"mode") {
	case 0:
		h.Len = rapid.OneOf(rapid.IntRange(0, 70), rapid.SampledFrom([]int{0, 1, 31, 33, 64, 65535, 65536, 70000})).Draw(t, label+"len")
	case 1:
		h.Odd = true
	case 2:
		h.Bad = true
	case 3:
		h.Up = true
	case 4:
		h.Pfx = true
	case 5: // "0x" + one byte less: the string has the canonical length, the value does not
		h.Pfx = true
		if h.Len > 0 {
			h.Len--
		}
	case 6: // a sign where the first digit should be: still the canonical length, and a number parser would take it
		h.Sign = 1 + int(h.Seed%2)
		if h.Seed%3 == 0 {
			h.Seed = 0 // small magnitudes too
		}
	}
	return h
}

func genC15(t *rapid.T) c15Case {
	c := c15Case{Kind: rapid.SampledFrom([]int{0, 1, 2, 3, 4, 5, 5, 6, 7, 7, 8, 8, 9, 9}).Draw(t, "kind"),
		Cur: rapid.OneOf(rapid.Uint32Range(0, 10), rapid.Uint32Range(0, 1<<32-2)).Draw(t, "cur"), Ts: vh.U32Edge().Draw(t, "ts"), Nonce: vh.U32Edge().Draw(t, "nonce"), Seq: vh.U64Edge().Draw(t, "seq"),
		Target: rapid.SampledFrom([]uint32{0, 0, 2, 255, 65535}).Draw(t, "target")}
	u32 := rapid.OneOf(rapid.Uint32Range(0, 300), rapid.SampledFrom([]uint32{0, 1, 2, 255, 256, 257, 65535, 65536, 65537, 65538, 1<<32 - 1}), rapid.Uint32())
	c.Chain = u32.Draw(t, "chain")
	c.CL = u32.Draw(t, "cl")
	c.Module = rapid.SampledFrom([]string{"TokenBridge", "TokenBridge", "TokenBridge", "NFTBridge", "", "Core", "TokenBridgeTokenBridgeTokenBridge12", "a-module-name-that-is-way-longer-than-thirty-two-bytes", "01234567890123456789012345678901",
		// at most 32 characters but more than 32 bytes, and exactly 32 bytes in fewer characters
		"ééééééééééééééééé", "TokenBridge€€€€€€€€", "éééééééééééééééé", "TokenBridge\x00\x00\x00"}).Draw(t, "module")
	switch c.Kind {
	case 1:
		c.H1 = genHex(t, "h1", 32)
	case 2:
		c.H1, c.H2 = genHex(t, "h1", 32), genHex(t, "h2", 32)
	case 3:
		n := rapid.OneOf(rapid.IntRange(0, 4), rapid.IntRange(0, 21)).Draw(t, "nguards")
		for i := 0; i < n; i++ {
			g := rapid.IntRange(1, 25).Draw(t, "g")
			if rapid.IntRange(0, 15).Draw(t, "badg") == 0 {
				g = -g
			}
			c.Guards = append(c.Guards, g)
		}
		if rapid.Bool().Draw(t, "spelled") {
			c.PkStyle = rapid.IntRange(1, 16).Draw(t, "pkstyle")
		}
	case 4, 6:
		c.Upg = rapid.IntRange(0, 2).Draw(t, "upg")
		c.H1, c.H2 = genHex(t, "h1", rapid.IntRange(0, 300).Draw(t, "codelen")), genHex(t, "h2", 20)
	case 5:
		c.H1 = genHex(t, "h1", 32)
	case 7:
		if rapid.IntRange(0, 5).Draw(t, "manyseqs") == 0 {
			c.NSeqBig = rapid.SampledFrom([]int{65535, 65536, 65537, 70000}).Draw(t, "nseqbig")
		} else {
			c.Seqs = rapid.SliceOfN(vh.U64Edge(), 0, 6).Draw(t, "seqs")
		}
	case 9:
		c.H1 = genHex(t, "h1", rapid.SampledFrom([]int{33, 33, 32, 1, 65}).Draw(t, "addrlen"))
	}
	return c
}

func TestVerif_C15_Conversions(t *testing.T) {
	ct, err := vh.LoadContracts()
	if err != nil {
		t.Fatalf("VERIF-VIOLATION harness/extractor: %v", err)
	}
	c15Contracts = ct
	vh.Check(t, vh.Prop[c15Case]{ID: "C15", Gen: genC15, Run: runC15})
}

// ------------------------------------------------------------------ through the RPC entry point

type c15Batch struct {
	Msgs []c15Case `json:"msgs"`
}

func TestVerif_C15_Inject(t *testing.T) {
	ct, err := vh.LoadContracts()
	if err != nil {
		t.Fatalf("VERIF-VIOLATION harness/extractor: %v", err)
	}
	c15Contracts = ct
	vh.Check(t, vh.Prop[c15Batch]{ID: "C15", Gen: func(t *rapid.T) c15Batch {
		n := rapid.IntRange(1, 4).Draw(t, "n")
		b := c15Batch{}
		for i := 0; i < n; i++ {
			m := genC15(t)
			if i > 0 {
				m.Cur, m.Ts = b.Msgs[0].Cur, b.Msgs[0].Ts
			}
			if m.NSeqBig > 0 {
				m.NSeqBig = 0
			}
			b.Msgs = append(b.Msgs, m)
		}
		return b
	}, Run: func(b c15Batch) (*vh.Violation, vh.Outcome) {
		o := vh.Outcome{}
		injectC := make(chan *vaa.VAA, 16)
		s := &nodePrivilegedService{injectC: injectC, logger: zap.NewNop(), governanceChainId: c15GovChain, governanceEmitterAddress: c15GovAddr}
		req := &nodev1.InjectGovernanceVAARequest{CurrentSetIndex: b.Msgs[0].Cur, Timestamp: b.Msgs[0].Ts}
		anyBad := false
		for _, m := range b.Msgs {
			gm := m.message()
			if rapid15Over(m.Target) {
				gm.TargetChainId = m.Target
			}
			req.Messages = append(req.Messages, gm)
			if m.Kind == 0 {
				anyBad = true
			}
		}
		o.NonTrivial = anyBad || len(b.Msgs) > 1
		call := func() (resp *nodev1.InjectGovernanceVAAResponse, err error, pan any) {
			defer func() {
				if r := recover(); r != nil {
					pan = r
				}
			}()
			resp, err = s.InjectGovernanceVAA(context.Background(), req)
			return
		}
		resp, err, pan := call()
		if pan != nil {
			return vh.V("C15/panic", "InjectGovernanceVAA panicked: %v", pan), o
		}
		var got []*vaa.VAA
		for len(injectC) > 0 {
			got = append(got, <-injectC)
		}
		if err != nil {
			return nil, o
		}
		if len(resp.Digests) != len(req.Messages) || len(got) != len(req.Messages) {
			return vh.V("C15/inject-count", "%d messages, %d digests, %d injected VAAs", len(req.Messages), len(resp.Digests), len(got)), o
		}
		for i, v := range got {
			body := vh.RefBody(vh.Body{Timestamp: uint32(v.Timestamp.Unix()), Nonce: v.Nonce, EmitterChain: uint16(v.EmitterChain), TargetChain: uint16(v.TargetChain),
				Emitter: [32]byte(v.EmitterAddress), Sequence: v.Sequence, CL: v.ConsistencyLevel, Payload: v.Payload})
			d := vh.RefDigest(body)
			if !bytes.Equal(resp.Digests[i], d[:]) {
				return vh.V("C15/inject-digest", "digest %d returned by InjectGovernanceVAA is not the digest of the injected VAA", i), o
			}
			if v.EmitterChain != c15GovChain || v.EmitterAddress != c15GovAddr {
				return vh.V("C15/wrong-emitter", "injected VAA %d is not from the governance emitter", i), o
			}
			// a pure function of the request: the envelope fields are the requested ones (nothing is filled in from the
			// node's clock or state), so every operator injecting this request signs the same digest
			m := b.Msgs[i]
			if v.Timestamp.Unix() != int64(req.Timestamp) || v.GuardianSetIndex != req.CurrentSetIndex || v.Nonce != m.Nonce || v.Sequence != m.Seq || uint32(v.TargetChain) != m.Target {
				return vh.V("C15/injected-vaa-not-the-requested-one", "injected VAA %d carries timestamp %d / set index %d / nonce %d / sequence %d / target %d; the request says %d / %d / %d / %d / %d",
					i, v.Timestamp.Unix(), v.GuardianSetIndex, v.Nonce, v.Sequence, v.TargetChain, req.Timestamp, req.CurrentSetIndex, m.Nonce, m.Seq, m.Target), o
			}
		}
		// same request again: same digests
		resp2, err2, pan2 := call()
		for len(injectC) > 0 {
			<-injectC
		}
		if pan2 != nil || err2 != nil || len(resp2.Digests) != len(resp.Digests) {
			return vh.V("C15/not-pure", "second injection of the same request behaved differently"), o
		}
		for i := range resp.Digests {
			if !bytes.Equal(resp.Digests[i], resp2.Digests[i]) {
				return vh.V("C15/not-pure", "digest %d differs between two injections of the same request", i), o
			}
		}
		return nil, o
	}})
}

func rapid15Over(t uint32) bool { return t > 65535 }
