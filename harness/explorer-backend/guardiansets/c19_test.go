//go:build verif

package guardiansets

import (
	"context"
	"fmt"
	"sync"
	"sync/atomic"
	"testing"
	"time"

	vh "github.com/alephium/wormhole-fork/explorer-backend/zzverif"
	"github.com/alephium/wormhole-fork/node/pkg/common"
	ethcommon "github.com/ethereum/go-ethereum/common"
	"go.uber.org/zap"
	"pgregory.net/rapid"
)

// C19 (lookup under appends): GetGuardianSet(i) for existing i while contiguous batches are
// appended. Run under the race detector.

type c19bCase struct {
	Initial int   `json:"initial"` // number of sets at start (>= 1)
	Batches []int `json:"batches"` // sizes of appended batches
	Overlap []int `json:"overlap"` // how many already-known sets each batch repeats at its start
	Readers int   `json:"readers"`
	// Appenders > 1: that many goroutines deliver each batch concurrently (the periodic refresh and the
	// lookup-triggered fetch both obtain the same new sets from the chain), each re-reading a few known sets
	Appenders int `json:"appenders"`
}

func mkSet(i int) *common.GuardianSet {
	return &common.GuardianSet{Index: uint32(i), Keys: []ethcommon.Address{vh.Addr(i), vh.Addr(i + 1)}}
}

func runC19b(c c19bCase) (*vh.Violation, vh.Outcome) {
	out := vh.Outcome{NonTrivial: len(c.Batches) > 0}
	var init []*common.GuardianSet
	for i := 0; i < c.Initial; i++ {
		init = append(init, mkSet(i))
	}
	gsC := make(chan *common.GuardianSet, 10000)
	gs := NewGuardianSets(init, "/nonexistent/verif-no-such-node.ipc", zap.NewNop(), time.Hour, ethcommon.Address{}, gsC)
	var known int64 = int64(c.Initial) // sets [0, known) are guaranteed present
	var wg sync.WaitGroup
	stop := make(chan struct{})
	var bad atomic.Value
	for r := 0; r < c.Readers; r++ {
		wg.Add(1)
		go func(r int) {
			defer wg.Done()
			defer func() {
				if p := recover(); p != nil {
					bad.Store(fmt.Sprintf("GetGuardianSet panicked: %v", p))
				}
			}()
			i := r
			for {
				select {
				case <-stop:
					return
				default:
				}
				n := int(atomic.LoadInt64(&known))
				idx := i % n
				i += 7
				s, err := gs.GetGuardianSet(context.Background(), idx)
				if err != nil || s == nil {
					bad.Store(fmt.Sprintf("GetGuardianSet(%d) of an existing set failed: %v", idx, err))
					return
				}
				if int(s.Index) != idx || len(s.Keys) != 2 || s.Keys[0] != vh.Addr(idx) {
					bad.Store(fmt.Sprintf("GetGuardianSet(%d) returned the set with index %d", idx, s.Index))
					return
				}
			}
		}(r)
	}
	next := c.Initial
	for bi, sz := range c.Batches {
		ov := 0
		if bi < len(c.Overlap) {
			ov = c.Overlap[bi]
		}
		if ov > next {
			ov = next
		}
		var batch []*common.GuardianSet
		for i := next - ov; i < next+sz; i++ {
			batch = append(batch, mkSet(i))
		}
		if c.Appenders <= 1 {
			_ = gs.updateGuardianSets(batch)
		} else {
			var aw sync.WaitGroup
			for a := 0; a < c.Appenders; a++ {
				aw.Add(1)
				go func(a int) {
					defer aw.Done()
					// every deliverer saw the chain at the same height but re-reads a different number of known sets
					from := next - ov - a
					if from < 0 {
						from = 0
					}
					var b []*common.GuardianSet
					for i := from; i < next+sz; i++ {
						b = append(b, mkSet(i))
					}
					_ = gs.updateGuardianSets(b)
				}(a)
			}
			aw.Wait()
		}
		next += sz
		atomic.StoreInt64(&known, int64(next))
		time.Sleep(200 * time.Microsecond)
	}
	time.Sleep(time.Millisecond)
	close(stop)
	wg.Wait()
	if b := bad.Load(); b != nil {
		return vh.V("C19/lookup-wrong-during-append", "%s", b), out
	}
	// final state: every index answers with its own set
	for i := 0; i < next; i++ {
		s, err := gs.GetGuardianSet(context.Background(), i)
		if err != nil || int(s.Index) != i {
			return vh.V("C19/lookup-wrong-after-append", "GetGuardianSet(%d): %v %v", i, s, err), out
		}
	}
	return nil, out
}

func TestVerif_C19_Lookup(t *testing.T) {
	vh.Check(t, vh.Prop[c19bCase]{ID: "C19", Gen: func(t *rapid.T) c19bCase {
		nb := rapid.IntRange(0, 12).Draw(t, "nbatches")
		c := c19bCase{Initial: rapid.IntRange(1, 4).Draw(t, "initial"), Readers: rapid.IntRange(1, 4).Draw(t, "readers"), Appenders: rapid.SampledFrom([]int{1, 1, 2, 3, 8}).Draw(t, "appenders")}
		for i := 0; i < nb; i++ {
			c.Batches = append(c.Batches, rapid.IntRange(1, 4).Draw(t, "size"))
			c.Overlap = append(c.Overlap, rapid.IntRange(0, 2).Draw(t, "overlap"))
		}
		return c
	}, Run: runC19b})
}
