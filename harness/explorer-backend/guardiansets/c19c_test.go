//go:build verif

package guardiansets

import (
	"context"
	"errors"
	"fmt"
	"net"
	"os"
	"path/filepath"
	"strings"
	"sync"
	"testing"
	"time"

	vh "github.com/alephium/wormhole-fork/explorer-backend/zzverif"
	"github.com/alephium/wormhole-fork/node/pkg/common"
	ethAbi "github.com/alephium/wormhole-fork/node/pkg/ethereum/abi"
	"github.com/ethereum/go-ethereum/accounts/abi"
	ethcommon "github.com/ethereum/go-ethereum/common"
	"github.com/ethereum/go-ethereum/common/hexutil"
	"github.com/ethereum/go-ethereum/rpc"
	"go.uber.org/zap"
	"pgregory.net/rapid"
)

// C19 (lookup of a set the explorer does not know yet): GetGuardianSet(i) for i beyond the current index
// fetches [current+1..i] from the governance contract. A fake node (go-ethereum rpc.Server on a unix socket)
// serves the contract; a generated hook appends further sets *while* that fetch is in flight, as the
// periodic refresh does. Whatever happens in between, the answer for index i is the set with index i.
// Lookups may also name an index the chain has not created yet (anyone can gossip a VAA that names one); the
// contract answers such a query the way the Solidity getter does, with an empty set. Once the chain has
// created set i, the answer for i is that set, whatever was asked before.

type c19cOp struct {
	Idx      int `json:"idx"`      // index looked up
	HookAt   int `json:"hookat"`   // while the chain is asked for this index ...
	AppendTo int `json:"appendto"` // ... sets up to this index are appended concurrently (0 = no hook)
	Grow     int `json:"grow"`     // before the lookup the chain creates this many further sets
}

type c19cCase struct {
	Initial int      `json:"initial"`
	Boot    bool     `json:"boot,omitempty"` // the initial sets are fetched from the chain, as at start-up, instead of being handed in
	ChainN  int      `json:"chainn"`         // the chain knows sets 0..ChainN
	Ops     []c19cOp `json:"ops"`
}

type gsChain struct {
	mu     sync.Mutex
	parsed abi.ABI
	n      int
	hook   func(index uint32)
	calls  int
}

type gsAPI struct{ c *gsChain }

func (a *gsAPI) ChainId(ctx context.Context) (hexutil.Uint64, error) { return 1, nil }

func (a *gsAPI) Call(ctx context.Context, args map[string]interface{}, block interface{}) (hexutil.Bytes, error) {
	in, _ := args["data"].(string)
	if in == "" {
		in, _ = args["input"].(string)
	}
	raw, err := hexutil.Decode(in)
	if err != nil || len(raw) < 4 {
		return nil, errors.New("bad call data")
	}
	m, err := a.c.parsed.MethodById(raw[:4])
	if err != nil {
		return nil, err
	}
	switch m.Name {
	case "getCurrentGuardianSetIndex":
		a.c.mu.Lock()
		n := a.c.n
		a.c.mu.Unlock()
		return m.Outputs.Pack(uint32(n))
	case "getGuardianSet":
		vals, err := m.Inputs.Unpack(raw[4:])
		if err != nil || len(vals) != 1 {
			return nil, errors.New("bad arguments")
		}
		idx := vals[0].(uint32)
		a.c.mu.Lock()
		a.c.calls++
		hook := a.c.hook
		n := a.c.n
		a.c.mu.Unlock()
		if hook != nil {
			hook(idx)
		}
		keys := []ethcommon.Address{}
		if int(idx) <= n {
			keys = mkSet(int(idx)).Keys
		}
		// as on a real chain: the current set never expires, the one before it is in its grace period, older ones expired long ago
		exp := uint32(0)
		switch {
		case int(idx) == n-1:
			exp = uint32(time.Now().Unix() + 86400)
		case int(idx) < n-1:
			exp = uint32(1600000000 + int(idx))
		}
		return m.Outputs.Pack(ethAbi.StructsGuardianSet{Keys: keys, ExpirationTime: exp})
	}
	return nil, fmt.Errorf("unsupported call %s", m.Name)
}

func runC19c(c c19cCase) (*vh.Violation, vh.Outcome) {
	out := vh.Outcome{}
	dir := os.Getenv("VERIF_SCRATCH")
	if dir == "" {
		dir = os.TempDir()
	}
	parsed, err := abi.JSON(strings.NewReader(ethAbi.AbiABI))
	if err != nil {
		return vh.V("harness/abi", "%v", err), out
	}
	chain := &gsChain{parsed: parsed, n: c.ChainN}
	srv := rpc.NewServer()
	if err := srv.RegisterName("eth", &gsAPI{chain}); err != nil {
		return vh.V("harness/rpc", "%v", err), out
	}
	path := filepath.Join(dir, fmt.Sprintf("gs-%d.ipc", os.Getpid()))
	_ = os.Remove(path)
	l, err := net.Listen("unix", path)
	if err != nil {
		return vh.V("harness/listen", "%v", err), out
	}
	go func() { _ = srv.ServeListener(l) }()
	defer func() { _ = l.Close(); srv.Stop(); _ = os.Remove(path) }()

	var init []*common.GuardianSet
	for i := 0; i < c.Initial; i++ {
		init = append(init, mkSet(i))
	}
	if c.Boot {
		// what main.go does: everything the chain has at start-up, from index 0
		chain.mu.Lock()
		chain.n = c.Initial - 1
		chain.mu.Unlock()
		ctx, cancel := context.WithTimeout(context.Background(), 10*time.Second)
		init, err = GetGuardianSetsFromChain(ctx, path, ethcommon.Address{19: 1}, 0)
		cancel()
		if err != nil {
			return vh.V("C19/boot-fetch-failed", "fetching sets 0..%d at start-up failed: %v", c.Initial-1, err), out
		}
		if len(init) == 0 {
			return vh.V("C19/boot-fetch-failed", "fetching sets 0..%d at start-up returned nothing", c.Initial-1), out
		}
		chain.mu.Lock()
		chain.n = c.ChainN
		chain.mu.Unlock()
		out.Labels = append(out.Labels, "booted-from-chain")
	}
	gsC := make(chan *common.GuardianSet, 10000)
	gs := NewGuardianSets(init, path, zap.NewNop(), time.Hour, ethcommon.Address{19: 1}, gsC)
	chainN := c.ChainN
	askedAhead := map[int]bool{}
	for oi, o := range c.Ops {
		cur := gs.currentIndex()
		fired := false
		chain.mu.Lock()
		if o.Grow > 0 {
			chain.n += o.Grow
			chainN = chain.n
		}
		chain.hook = nil
		if o.AppendTo > 0 && o.AppendTo <= chainN {
			chain.hook = func(index uint32) {
				if int(index) != o.HookAt || fired {
					return
				}
				fired = true
				var batch []*common.GuardianSet
				for i := gs.currentIndex() + 1; i <= o.AppendTo; i++ {
					batch = append(batch, mkSet(i))
				}
				_ = gs.updateGuardianSets(batch)
			}
		}
		chain.mu.Unlock()
		ctx, cancel := context.WithTimeout(context.Background(), 5*time.Second)
		s, err := gs.GetGuardianSet(ctx, o.Idx)
		cancel()
		if o.Idx > chainN {
			// no such set yet: an error is the honest answer; whatever is answered, nothing may stick (checked
			// by the later lookups, once the chain has created the set)
			out.Labels = append(out.Labels, "index-not-on-chain-yet")
			askedAhead[o.Idx] = true
			continue
		}
		for a := range askedAhead {
			if a <= chainN && o.Idx <= a && o.Idx > c.Initial-1 {
				out.NonTrivial = true
				out.Labels = append(out.Labels, "lookup-after-the-chain-caught-up-with-an-early-request")
				break
			}
		}
		if o.Idx > cur {
			out.Labels = append(out.Labels, "future-index")
			if fired && o.AppendTo > o.Idx {
				out.NonTrivial = true
				out.Labels = append(out.Labels, "appended-past-it-during-fetch")
			}
		}
		if err != nil || s == nil {
			return vh.V("C19/future-lookup-failed", "op %d: GetGuardianSet(%d) with the explorer at index %d and the chain at %d failed: %v", oi, o.Idx, cur, c.ChainN, err), out
		}
		want := mkSet(o.Idx)
		if int(s.Index) != o.Idx || len(s.Keys) != len(want.Keys) || s.Keys[0] != want.Keys[0] || s.Keys[1] != want.Keys[1] {
			return vh.V("C19/lookup-returns-other-set", "op %d: GetGuardianSet(%d) returned the set with index %d (keys %v) while the chain holds sets 0..%d; explorer was at index %d, sets up to %d were appended while the chain was asked for set %d, indices asked for before the chain had them: %v",
				oi, o.Idx, s.Index, s.Keys, chainN, cur, o.AppendTo, o.HookAt, askedAhead), out
		}
	}
	// every index the chain has answers with its own set
	chain.mu.Lock()
	chain.hook = nil
	chain.mu.Unlock()
	for i := 0; i <= chainN; i++ {
		ctx, cancel := context.WithTimeout(context.Background(), 5*time.Second)
		s, err := gs.GetGuardianSet(ctx, i)
		cancel()
		if err != nil || s == nil || int(s.Index) != i || len(s.Keys) != len(mkSet(i).Keys) || s.Keys[0] != mkSet(i).Keys[0] {
			return vh.V("C19/lookup-wrong-after-append", "GetGuardianSet(%d) after the history (chain holds sets 0..%d, indices asked for before the chain had them: %v): %v %v", i, chainN, askedAhead, s, err), out
		}
	}
	return nil, out
}

func TestVerif_C19_FutureLookup(t *testing.T) {
	vh.Check(t, vh.Prop[c19cCase]{ID: "C19", Gen: func(t *rapid.T) c19cCase {
		c := c19cCase{Initial: rapid.IntRange(1, 4).Draw(t, "initial"), Boot: rapid.Bool().Draw(t, "boot")}
		c.ChainN = c.Initial - 1 + rapid.IntRange(1, 8).Draw(t, "ahead")
		op := rapid.Custom(func(t *rapid.T) c19cOp {
			o := c19cOp{Idx: rapid.OneOf(rapid.IntRange(0, c.ChainN), rapid.IntRange(c.Initial, c.ChainN), rapid.IntRange(c.ChainN+1, c.ChainN+6)).Draw(t, "idx")}
			if rapid.IntRange(0, 3).Draw(t, "grow") == 0 {
				o.Grow = rapid.IntRange(1, 3).Draw(t, "by")
			}
			if o.Idx <= c.ChainN && rapid.IntRange(0, 2).Draw(t, "hook") > 0 {
				// mostly: the append happens while one of the last sets of the requested range is fetched and reaches past it
				o.HookAt = o.Idx - rapid.IntRange(0, 2).Draw(t, "before")
				if o.HookAt < 0 {
					o.HookAt = 0
				}
				o.AppendTo = o.Idx + rapid.IntRange(0, 3).Draw(t, "past")
				if o.AppendTo > c.ChainN {
					o.AppendTo = c.ChainN
				}
			}
			return o
		})
		c.Ops = rapid.SliceOfN(op, 1, 8).Draw(t, "ops")
		return c
	}, Run: runC19c})
}
