//go:build verif

package deduplicator

import (
	"context"
	"errors"
	"fmt"
	"sync"
	"testing"
	"time"

	vh "github.com/alephium/wormhole-fork/explorer-backend/zzverif"
	"github.com/dgraph-io/ristretto"
	"github.com/eko/gocache/v3/cache"
	"github.com/eko/gocache/v3/store"
	"go.uber.org/zap"
	"pgregory.net/rapid"
)

// C19 (a failed hand-off is not "seen"): copies of a message handled in any interleaving. A copy may be swallowed as
// a duplicate only if some hand-off of that message succeeded (before, or among the hand-offs in flight at that
// moment); a copy that arrives while the only hand-off so far is still in flight and then fails must be handed off
// itself. The schedule is fixed by the case: hand-offs block until the case releases them.

type c19dStep struct {
	K    string `json:"k"`    // start | release
	Call int    `json:"call"` // index of the call
}

type c19dCall struct {
	Key  int  `json:"key"`
	Fail bool `json:"fail"` // its hand-off reports an error (queue full)
	Hold bool `json:"hold"` // its hand-off blocks until released by a later step
}

type c19dCase struct {
	Calls []c19dCall `json:"calls"`
	Steps []c19dStep `json:"steps"`
}

func runC19d(c c19dCase) (*vh.Violation, vh.Outcome) {
	out := vh.Outcome{}
	rc, err := ristretto.NewCache(&ristretto.Config{NumCounters: 10000, MaxCost: 10 * (1 << 20), BufferItems: 64})
	if err != nil {
		return vh.V("harness/cache", "%v", err), out
	}
	defer rc.Close() // ristretto keeps goroutines and buffers alive until it is closed
	d := New(cache.New[bool](store.NewRistretto(rc)), zap.NewNop())
	type st struct {
		started, entered, returned bool
		ranFn                      bool
		err                        error
		release                    chan struct{}
		enteredC, done             chan struct{}
	}
	calls := make([]*st, len(c.Calls))
	for i := range calls {
		calls[i] = &st{release: make(chan struct{}), enteredC: make(chan struct{}), done: make(chan struct{})}
	}
	var mu sync.Mutex
	overlapped := false
	start := func(i int) {
		s := calls[i]
		if s.started {
			return
		}
		s.started = true
		spec := c.Calls[i]
		go func() {
			defer close(s.done)
			err := d.Apply(context.Background(), fmt.Sprintf("msg-%d", spec.Key), func() error {
				mu.Lock()
				s.ranFn = true
				mu.Unlock()
				close(s.enteredC)
				if spec.Hold {
					<-s.release
				}
				if spec.Fail {
					return errors.New("queue full")
				}
				return nil
			})
			mu.Lock()
			s.err = err
			s.returned = true
			mu.Unlock()
		}()
		// the call has either entered its hand-off or returned without one
		select {
		case <-s.enteredC:
		case <-s.done:
		case <-time.After(5 * time.Second):
		}
		for j, o := range calls {
			if j != i && o.started && c.Calls[j].Key == spec.Key {
				select {
				case <-o.done:
				default:
					overlapped = true
				}
			}
		}
	}
	release := func(i int) {
		s := calls[i]
		if !s.started || !c.Calls[i].Hold {
			return
		}
		select {
		case <-s.release:
		default:
			close(s.release)
		}
		select {
		case <-s.done:
		case <-time.After(5 * time.Second):
		}
		rc.Wait() // ristretto applies a Set asynchronously: let it land before the next step looks
	}
	for _, x := range c.Steps {
		if x.Call < 0 || x.Call >= len(calls) {
			continue
		}
		if x.K == "start" {
			start(x.Call)
			if !c.Calls[x.Call].Hold {
				select {
				case <-calls[x.Call].done:
				case <-time.After(5 * time.Second):
				}
				rc.Wait()
			}
		} else {
			release(x.Call)
		}
	}
	for i := range calls {
		release(i)
	}
	for i, s := range calls {
		if !s.started {
			continue
		}
		select {
		case <-s.done:
		case <-time.After(5 * time.Second):
			out.Inconclusive = true
			return nil, out
		}
		_ = i
	}
	out.NonTrivial = overlapped
	// a copy swallowed as a duplicate needs a successful hand-off of its message
	for i, s := range calls {
		if !s.started || s.ranFn || s.err != nil {
			continue
		}
		ok := false
		for j, o := range calls {
			if j != i && o.started && c.Calls[j].Key == c.Calls[i].Key && o.ranFn && o.err == nil {
				ok = true
			}
		}
		if !ok {
			return vh.V("C19/copy-swallowed-without-successful-handoff", "call %d (message %d) returned success without handing the VAA off, and no hand-off of that message ever succeeded (a hand-off that was in flight failed afterwards): the VAA was never ingested", i, c.Calls[i].Key), out
		}
	}
	// a hand-off that failed reports its error
	for i, s := range calls {
		if s.started && s.ranFn && c.Calls[i].Fail && s.err == nil {
			return vh.V("C19/failed-handoff-reported-success", "call %d: the hand-off failed but Apply returned nil", i), out
		}
	}
	return nil, out
}

func TestVerif_C19_DedupInterleavings(t *testing.T) {
	vh.Check(t, vh.Prop[c19dCase]{ID: "C19", Gen: func(t *rapid.T) c19dCase {
		n := rapid.IntRange(2, 5).Draw(t, "ncalls")
		c := c19dCase{}
		for i := 0; i < n; i++ {
			c.Calls = append(c.Calls, c19dCall{Key: rapid.IntRange(0, 1).Draw(t, "key"), Fail: rapid.Bool().Draw(t, "fail"), Hold: rapid.IntRange(0, 2).Draw(t, "hold") > 0})
		}
		// every call is started once, in a generated order; releases are sprinkled in between
		order := rapid.Permutation(seq(n)).Draw(t, "order")
		for _, i := range order {
			c.Steps = append(c.Steps, c19dStep{K: "start", Call: i})
			for rapid.IntRange(0, 2).Draw(t, "rel") == 0 {
				c.Steps = append(c.Steps, c19dStep{K: "release", Call: rapid.IntRange(0, n-1).Draw(t, "which")})
			}
		}
		return c
	}, Run: runC19d})
}

func seq(n int) []int {
	out := make([]int, n)
	for i := range out {
		out[i] = i
	}
	return out
}
