//go:build verif

package processor

import (
	"bytes"
	"context"
	"fmt"
	"testing"
	"time"

	"github.com/alephium/wormhole-fork/explorer-backend/deduplicator"
	"github.com/alephium/wormhole-fork/explorer-backend/guardiansets"
	vh "github.com/alephium/wormhole-fork/explorer-backend/zzverif"
	"github.com/alephium/wormhole-fork/node/pkg/common"
	nodeprocessor "github.com/alephium/wormhole-fork/node/pkg/processor"
	"github.com/alephium/wormhole-fork/node/pkg/vaa"
	"github.com/dgraph-io/ristretto"
	"github.com/eko/gocache/v3/cache"
	"github.com/eko/gocache/v3/store"
	ethcommon "github.com/ethereum/go-ethereum/common"
	"go.uber.org/zap"
	"pgregory.net/rapid"
)

// C19 (gate): the gossip consumer queues a VAA only if it verifies, with quorum, against the
// guardian set whose index the VAA carries; a refused hand-off leaves no trace.

type c19Push struct {
	K     string `json:"k"`     // push | drain
	Msg   int    `json:"msg"`   // message id selector (same id => duplicates)
	Named int    `json:"named"` // guardian set index the VAA names
	By    int    `json:"by"`    // guardian set that actually signs
	Kind  string `json:"kind"`  // quorum | all | quorum-1 | outsider | wrong-order | nosigs
	Seed  uint64 `json:"seed"`
}

type c19Case struct {
	Sizes []int     `json:"sizes"` // sizes of guardian sets 0..k
	Cap   int       `json:"cap"`   // queue capacity
	Ops   []c19Push `json:"ops"`
}

// newDedup returns a deduplicator and the function that releases its cache (ristretto keeps goroutines and buffers
// alive until it is closed: thousands of cases per process would otherwise add up to gigabytes).
func newDedup() (*deduplicator.Deduplicator, func()) {
	c, err := ristretto.NewCache(&ristretto.Config{NumCounters: 10000, MaxCost: 10 * (1 << 20), BufferItems: 64})
	if err != nil {
		panic(err)
	}
	return deduplicator.New(cache.New[bool](store.NewRistretto(c)), zap.NewNop()), c.Close
}

func setKeys(idx, size int) []int {
	out := make([]int, size)
	for i := range out {
		out[i] = idx*7 + i // consecutive sets overlap partially
	}
	return out
}

func runC19(c c19Case) (*vh.Violation, vh.Outcome) {
	out := vh.Outcome{}
	var sets []*common.GuardianSet
	var keyIdx [][]int
	for i, n := range c.Sizes {
		ks := setKeys(i, n)
		gs := &common.GuardianSet{Index: uint32(i)}
		for _, k := range ks {
			gs.Keys = append(gs.Keys, vh.Addr(k))
		}
		sets = append(sets, gs)
		keyIdx = append(keyIdx, ks)
	}
	gsC := make(chan *common.GuardianSet, 1000)
	gss := guardiansets.NewGuardianSets(sets, "/nonexistent/verif-no-such-node.ipc", zap.NewNop(), time.Hour, ethcommon.Address{}, gsC)
	queue := make(chan *Message, c.Cap)
	dd, closeDedup := newDedup()
	defer closeDedup()
	cons := NewVAAGossipConsumer(gss, dd, queue, zap.NewNop())
	ctx, cancel := context.WithTimeout(context.Background(), 20*time.Second)
	defer cancel()
	refused := map[string]bool{} // ids whose last push failed only because the queue was full
	queuedBefore := map[string]bool{}
	for i, o := range c.Ops {
		if o.K == "drain" {
			for len(queue) > 0 {
				<-queue
			}
			continue
		}
		by := o.By % len(sets)
		named := o.Named
		body := vh.Body{Timestamp: 1000 + uint32(o.Msg), Nonce: uint32(o.Msg), EmitterChain: 2, TargetChain: 0, Emitter: [32]byte{31: byte(1 + o.Msg%3)}, Sequence: uint64(o.Msg), CL: 1, Payload: vh.Expand(uint64(o.Msg), 20)}
		bb := vh.RefBody(body)
		digest := vh.RefDigest(bb)
		n := len(keyIdx[by])
		q := vh.RefQuorum(n)
		pos := make([]int, 0, n)
		cnt := q
		switch o.Kind {
		case "all":
			cnt = n
		case "quorum-1":
			cnt = q - 1
		case "nosigs":
			cnt = 0
		}
		for p := 0; p < cnt; p++ {
			pos = append(pos, (p+int(o.Seed))%n)
		}
		// ascending order unless the kind says otherwise
		for a := 0; a < len(pos); a++ {
			for b := a + 1; b < len(pos); b++ {
				if pos[b] < pos[a] {
					pos[a], pos[b] = pos[b], pos[a]
				}
			}
		}
		if o.Kind == "wrong-order" && len(pos) >= 2 {
			pos[0], pos[len(pos)-1] = pos[len(pos)-1], pos[0]
		}
		var sigs []vh.RefSig
		for j, p := range pos {
			var s vh.RefSig
			s.Index = uint8(p)
			k := keyIdx[by][p]
			if o.Kind == "outsider" && j == int(o.Seed)%len(pos) {
				k = 280 + int(o.Seed%15)
			}
			copy(s.Sig[:], vh.SignDigest(k, digest[:]))
			sigs = append(sigs, s)
		}
		wire := vh.RefMarshal(1, uint32(named), sigs, bb)
		v, err := vaa.Unmarshal(wire)
		if err != nil {
			continue // main.go drops what it cannot decode
		}
		if named != by {
			out.Labels = append(out.Labels, "names-other-set")
			out.NonTrivial = true
		}
		if named >= len(sets) {
			out.Labels = append(out.Labels, "names-future-set")
		}
		before := len(queue)
		room := before < cap(queue)
		perr, pan := callPush(cons, ctx, v, wire)
		if pan != nil {
			return vh.V("C19/panic", "op %d: Push panicked: %v", i, pan), out
		}
		got := len(queue) - before
		id := v.MessageID()
		// ground truth: does the VAA verify against the set whose index it carries?
		var verr error
		if named < len(sets) {
			_, verr = vh.RefVerifyVAA(wire, sets[named].Keys)
		} else {
			verr = fmt.Errorf("names guardian set %d, only %d are known and the chain is unreachable", named, len(sets))
		}
		if got > 0 {
			if got != 1 {
				return vh.V("C19/queued-twice", "op %d: one Push queued %d messages", i, got), out
			}
			// inspect the tail
			var tail *Message
			k := len(queue)
			for j := 0; j < k; j++ {
				m := <-queue
				queue <- m
				tail = m
			}
			if verr != nil {
				return vh.V("C19/queued-unverified-vaa", "op %d (%s, signed by set %d, names set %d): queued although it does not verify against the set it names: %v", i, o.Kind, by, named, verr), out
			}
			if tail == nil || !bytes.Equal(tail.serialized, wire) || tail.vaa != v {
				return vh.V("C19/queued-wrong-message", "op %d: the queued message is not the pushed VAA", i), out
			}
			delete(refused, id)
			queuedBefore[id] = true
			continue
		}
		// not queued
		if verr == nil && room && perr != nil {
			return vh.V("C19/valid-vaa-refused", "op %d: a VAA with a valid quorum of set %d (the set it names) was refused with room in the queue: %v", i, named, perr), out
		}
		if verr == nil && room && perr == nil {
			// Push reported success without queueing: only legitimate if this id was queued before (dedup)
			if !queuedBefore[id] {
				return vh.V("C19/valid-vaa-swallowed", "op %d: Push of %s returned success without queueing it, and it was never queued before", i, id), out
			}
			if refused[id] {
				return vh.V("C19/refused-vaa-marked-seen", "op %d: %s was refused earlier because the queue was full; the later copy was swallowed as a duplicate", i, id), out
			}
			out.Labels = append(out.Labels, "deduplicated")
		}
		if verr == nil && !room {
			if perr == nil {
				if !queuedBefore[id] {
					return vh.V("C19/full-queue-reported-success", "op %d: queue full, %s never queued before, but Push returned nil", i, id), out
				}
				out.Labels = append(out.Labels, "deduplicated")
			} else {
				if !queuedBefore[id] {
					refused[id] = true
				}
				out.Labels = append(out.Labels, "refused-queue-full")
			}
		}
	}
	return nil, out
}

func callPush(c *vaaGossipConsumer, ctx context.Context, v *vaa.VAA, b []byte) (err error, pan any) {
	defer func() {
		if r := recover(); r != nil {
			pan = r
		}
	}()
	return c.Push(ctx, v, b), nil
}

func genC19(t *rapid.T) c19Case {
	c := c19Case{Sizes: rapid.SliceOfN(rapid.OneOf(rapid.IntRange(1, 4), rapid.IntRange(1, 19)), 1, 5).Draw(t, "sizes"), Cap: rapid.IntRange(0, 2).Draw(t, "cap")}
	op := rapid.Custom(func(t *rapid.T) c19Push {
		if rapid.IntRange(0, 4).Draw(t, "drain") == 0 {
			return c19Push{K: "drain"}
		}
		by := rapid.IntRange(0, len(c.Sizes)-1).Draw(t, "by")
		named := by
		if rapid.IntRange(0, 2).Draw(t, "other") == 0 {
			named = rapid.IntRange(0, len(c.Sizes)+1).Draw(t, "named")
		}
		return c19Push{K: "push", Msg: rapid.IntRange(0, 4).Draw(t, "msg"), Named: named, By: by,
			Kind: rapid.SampledFrom([]string{"quorum", "quorum", "quorum", "all", "quorum-1", "outsider", "wrong-order", "nosigs"}).Draw(t, "kind"), Seed: rapid.Uint64Range(0, 40).Draw(t, "seed")}
	})
	c.Ops = rapid.SliceOfN(op, 1, 25).Draw(t, "ops")
	return c
}

func TestVerif_C19_Gate(t *testing.T) {
	vh.Check(t, vh.Prop[c19Case]{ID: "C19", Gen: genC19, Run: runC19})
}

// C07 for the explorer: the quorum function it calls (from the node module version it is built against)
func TestVerif_C07_ExplorerQuorum(t *testing.T) {
	pl := vh.NewPlain(t, "C07")
	defer pl.Flush()
	for n := 0; n <= 255; n++ {
		row := map[string]int{"n": n, "explorer_quorum": nodeprocessor.CalculateQuorum(n), "ref": 2*n/3 + 1}
		pl.Record(row, vh.Outcome{NonTrivial: n >= 1})
		if row["explorer_quorum"] != row["ref"] {
			pl.Violate(vh.V("C07/explorer-quorum-differs", "n=%d: the explorer's CalculateQuorum=%d, floor(2n/3)+1=%d", n, row["explorer_quorum"], row["ref"]), row)
		}
	}
}
