//go:build verif

package processor

import (
	"testing"

	vh "github.com/alephium/wormhole-fork/explorer-backend/zzverif"
	"github.com/alephium/wormhole-fork/node/pkg/vaa"
	ethcommon "github.com/ethereum/go-ethereum/common"
	"pgregory.net/rapid"
)

// The explorer's own acceptance test (verifyVAA) against the reference verifier: it accepts a VAA for a guardian
// list iff the VAA has at least floor(2n/3)+1 signatures and *every* signature it carries - also those beyond
// the quorum - recovers over the digest to the address at its index, indices strictly ascending.
// Serves C06 (signature list corruptions at every position) and C07 (the threshold, for every n).

type exSig struct {
	Pos  int    `json:"pos"`  // guardian index signed for
	Key  int    `json:"key"`  // -1: the guardian at Pos; otherwise this key of the pool
	Idx  int    `json:"idx"`  // -1: Pos; otherwise the index written into the VAA
	Junk uint64 `json:"junk"` // != 0: signature bytes replaced by noise
}

type exCase struct {
	N    int     `json:"n"`
	Sigs []exSig `json:"sigs"`
	Seq  uint64  `json:"seq"`
	// Repeat: guardian list position -> the key of that earlier position (a list with a repeated address)
	Repeat map[int]int `json:"repeat,omitempty"`
	Mirror int         `json:"mirror,omitempty"` // 1+i: signature i is given in its high-s form (still valid)
}

func exKey(c exCase, pos int) int {
	if k, ok := c.Repeat[pos]; ok && k < pos {
		return k
	}
	return pos
}

func exList(c exCase) []ethcommon.Address {
	out := make([]ethcommon.Address, c.N)
	for i := range out {
		out[i] = vh.Addr(exKey(c, i))
	}
	return out
}

func runExVerify(c exCase) (*vh.Violation, vh.Outcome) {
	out := vh.Outcome{}
	list := exList(c)
	body := vh.Body{Timestamp: 1700000000, Nonce: 7, EmitterChain: 2, TargetChain: 0, Emitter: [32]byte{31: 4}, Sequence: c.Seq, CL: 1, Payload: vh.Expand(c.Seq, 40)}
	bb := vh.RefBody(body)
	digest := vh.RefDigest(bb)
	var sigs []vh.RefSig
	bad := false
	for _, s := range c.Sigs {
		var r vh.RefSig
		k := exKey(c, s.Pos)
		if s.Key >= 0 {
			k = s.Key
			bad = true
		}
		copy(r.Sig[:], vh.SignDigest(k, digest[:]))
		if c.Mirror == len(sigs)+1 {
			copy(r.Sig[:], vh.MirrorS(r.Sig[:]))
		}
		if s.Junk != 0 {
			copy(r.Sig[:], vh.Expand(s.Junk, 65))
			bad = true
		}
		r.Index = uint8(s.Pos)
		if s.Idx >= 0 {
			r.Index = uint8(s.Idx)
			bad = true
		}
		sigs = append(sigs, r)
	}
	wire := vh.RefMarshal(1, 0, sigs, bb)
	v, err := vaa.Unmarshal(wire)
	if err != nil {
		return nil, out
	}
	q := vh.RefQuorum(c.N)
	refErr := vh.RefVerifySigs(digest, sigs, list, true)
	if len(sigs) == 0 {
		refErr = errNoSigs
	}
	var got error
	var pan any
	func() {
		defer func() { pan = recover() }()
		got = verifyVAA(v, list)
	}()
	if pan != nil {
		return vh.V("C06/explorer-verify-panics", "verifyVAA panicked on %d signatures for a list of %d: %v", len(sigs), c.N, pan), out
	}
	out.NonTrivial = len(sigs) >= q && bad || len(sigs) == q || len(sigs) == q-1
	if len(sigs) > q && bad {
		out.Labels = append(out.Labels, "defect-beyond-quorum-prefix")
	}
	if got == nil && refErr != nil {
		fp := "C06/explorer-accepts-invalid"
		if len(sigs) < q {
			fp = "C07/explorer-accepts-below-quorum"
		}
		return vh.V(fp, "verifyVAA accepted %d signatures for a guardian list of %d (quorum %d) although: %v", len(sigs), c.N, q, refErr), out
	}
	if got != nil && refErr == nil {
		fp := "C06/explorer-rejects-valid"
		if len(sigs) == q {
			fp = "C07/explorer-rejects-exact-quorum"
		}
		return vh.V(fp, "verifyVAA rejected %d valid, ordered, in-list signatures for a guardian list of %d (quorum %d): %v", len(sigs), c.N, q, got), out
	}
	return nil, out
}

type strErr string

func (e strErr) Error() string { return string(e) }

const errNoSigs = strErr("no signatures")

func genExCase(t *rapid.T) exCase {
	c := exCase{N: rapid.OneOf(rapid.IntRange(1, 7), rapid.IntRange(1, 19), rapid.IntRange(1, 60)).Draw(t, "n"), Seq: rapid.Uint64Range(0, 1000).Draw(t, "seq")}
	q := vh.RefQuorum(c.N)
	cnt := rapid.SampledFrom([]int{q, q, q - 1, c.N, c.N, (q + c.N + 1) / 2, q + 1}).Draw(t, "count")
	if cnt > c.N {
		cnt = c.N
	}
	if cnt < 0 {
		cnt = 0
	}
	// ascending positions starting anywhere
	first := 0
	if c.N-cnt > 0 {
		first = rapid.IntRange(0, c.N-cnt).Draw(t, "first")
	}
	for i := 0; i < cnt; i++ {
		c.Sigs = append(c.Sigs, exSig{Pos: first + i, Key: -1, Idx: -1})
	}
	if len(c.Sigs) > 0 {
		switch rapid.SampledFrom([]string{"none", "none", "outsider", "neighbour", "junk", "dup", "reindex", "swap", "append-255"}).Draw(t, "corr") {
		case "outsider":
			c.Sigs[rapid.IntRange(0, len(c.Sigs)-1).Draw(t, "at")].Key = 270 + rapid.IntRange(0, 20).Draw(t, "k")
		case "neighbour": // a member signs, but at another member's index
			i := rapid.IntRange(0, len(c.Sigs)-1).Draw(t, "at")
			c.Sigs[i].Key = (c.Sigs[i].Pos + 1) % c.N
			if c.N == 1 {
				c.Sigs[i].Key = 271
			}
		case "junk":
			c.Sigs[rapid.IntRange(0, len(c.Sigs)-1).Draw(t, "at")].Junk = rapid.Uint64Range(1, 1<<30).Draw(t, "junk")
		case "dup":
			i := rapid.IntRange(0, len(c.Sigs)-1).Draw(t, "at")
			c.Sigs = append(c.Sigs, c.Sigs[i])
			c.Sigs[len(c.Sigs)-1].Idx = c.Sigs[i].Pos // marks the case as defective
		case "reindex":
			i := rapid.IntRange(0, len(c.Sigs)-1).Draw(t, "at")
			c.Sigs[i].Idx = rapid.IntRange(0, 255).Draw(t, "idx")
		case "swap":
			if len(c.Sigs) >= 2 {
				i := rapid.IntRange(0, len(c.Sigs)-2).Draw(t, "at")
				c.Sigs[i], c.Sigs[i+1] = c.Sigs[i+1], c.Sigs[i]
				c.Sigs[i].Idx = c.Sigs[i].Pos
			}
		case "append-255":
			c.Sigs = append(c.Sigs, exSig{Pos: 255, Key: 275, Idx: -1})
		}
	}
	if c.N >= 2 && rapid.IntRange(0, 3).Draw(t, "repeats") == 0 {
		c.Repeat = map[int]int{}
		for j := rapid.IntRange(1, 2).Draw(t, "nrep"); j > 0; j-- {
			a := rapid.IntRange(1, c.N-1).Draw(t, "ra")
			c.Repeat[a] = rapid.IntRange(0, a-1).Draw(t, "rb")
		}
	}
	if len(c.Sigs) > 0 && rapid.IntRange(0, 4).Draw(t, "mirror") == 0 {
		c.Mirror = 1 + rapid.IntRange(0, len(c.Sigs)-1).Draw(t, "mi")
	}
	return c
}

func TestVerif_C06_ExplorerVerify(t *testing.T) {
	vh.Check(t, vh.Prop[exCase]{ID: "C06", Gen: genExCase, Run: runExVerify})
}

// C07 for the explorer's acceptance test, for every list length 1..255: exactly floor(2n/3)+1 valid signatures
// are accepted, one fewer is refused.
func TestVerif_C07_ExplorerThreshold(t *testing.T) {
	pl := vh.NewPlain(t, "C07")
	defer pl.Flush()
	for n := 1; n <= 255; n++ {
		q := vh.RefQuorum(n)
		for _, cnt := range []int{q - 1, q} {
			c := exCase{N: n, Seq: uint64(n)}
			for i := 0; i < cnt; i++ {
				c.Sigs = append(c.Sigs, exSig{Pos: i, Key: -1, Idx: -1})
			}
			v, o := runExVerify(c)
			pl.Record(map[string]int{"n": n, "signatures": cnt, "quorum": q}, vh.Outcome{NonTrivial: true, Labels: o.Labels})
			if v != nil {
				pl.Violate(v, c)
			}
		}
	}
}
