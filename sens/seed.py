#!/usr/bin/env python3
"""Seed handling in the scratch worktree /var/tmp/vmut (never /repo):
  sens/seed.py verify <seeddir>        apply patch, run demo (must fail), run touched packages' own tests (must pass),
                                       revert, run demo (must pass)
  sens/seed.py check <seeddir> [ID] [--tier T]   apply patch, run ./check ID against the scratch tree, revert
"""
import glob, json, os, re, shutil, subprocess, sys, time
HERE = os.path.dirname(os.path.abspath(__file__)); VERIF = os.path.dirname(HERE); WT = os.environ.get("VERIF_WT", "/var/tmp/vmut")
ENV = dict(os.environ, GOFLAGS="-mod=mod", GOPROXY="off", GOSUMDB="off", GOTOOLCHAIN="local")
def sh(cmd, cwd=None, env=None, timeout=1800):
    r = subprocess.run(cmd, shell=isinstance(cmd, str), cwd=cwd, env=env or ENV, capture_output=True, text=True, timeout=timeout)
    return r.returncode, r.stdout + r.stderr
def reset():
    if not os.path.isdir(WT):
        rc, out = sh(["git", "-C", "/repo", "worktree", "add", "--detach", WT, "HEAD"])
        if rc: sys.exit(out)
    head = sh(["git", "-C", "/repo", "rev-parse", "HEAD"])[1].strip()
    sh(["git", "-C", WT, "reset", "-q", "--hard"]); sh(["git", "-C", WT, "checkout", "-q", "--detach", head]); sh(["git", "-C", WT, "reset", "-q", "--hard", head]); sh(["git", "-C", WT, "clean", "-fdq"])
def apply(seed):
    rc, out = sh(["git", "-C", WT, "apply", os.path.join(seed, "patch.diff")])
    return rc, out
def demo_files(seed):
    return [f for f in glob.glob(os.path.join(seed, "*")) if os.path.basename(f) not in ("patch.diff", "meta.json") and not f.endswith(".txt")]
def verify(seed):
    meta = json.load(open(os.path.join(seed, "meta.json")))
    reset()
    place = os.path.join(WT, meta["demo_place"])
    demos = demo_files(seed)
    def put():
        if os.path.isdir(place) or meta["demo_place"].endswith("/"):
            for f in demos: shutil.copy(f, os.path.join(place, os.path.basename(f)))
        else:
            os.makedirs(os.path.dirname(place), exist_ok=True)
            src = [f for f in demos if os.path.basename(f) == os.path.basename(place)] or demos
            shutil.copy(src[0], place)
    cmd = re.sub(r"/tmp/wt\d?-C\d\d", WT, meta["demo_cmd"])
    put()
    rc0, out0 = sh(cmd, cwd=WT)
    print("demo WITHOUT change: rc=%d %s" % (rc0, "(ok)" if rc0 == 0 else "UNEXPECTED\n" + out0[-1500:]))
    rc, out = apply(seed)
    if rc: print("patch does not apply:", out); return 1
    rc1, out1 = sh(cmd, cwd=WT)
    print("demo WITH change: rc=%d %s" % (rc1, "(fails as required)" if rc1 != 0 else "UNEXPECTED PASS"))
    # remove demo, run the touched packages' own tests
    sh(["git", "-C", WT, "clean", "-fdq"])
    pkgs = set()
    for line in open(os.path.join(seed, "patch.diff")):
        m = re.match(r"\+\+\+ b/(node|explorer-backend)/(.*)/[^/]+\.go", line)
        if m: pkgs.add((m.group(1), "./" + m.group(2) + "/"))
    rc2 = 0
    for mod, pkg in sorted(pkgs):
        r, o = sh("go test -count=1 -vet=off -overlay /tmp/quicfix/overlay.json %s" % pkg, cwd=os.path.join(WT, mod))
        print("existing tests %s %s WITH change: rc=%d %s" % (mod, pkg, r, o.strip().splitlines()[-1] if o.strip() else ""))
        rc2 |= r
    reset()
    return 0 if (rc0 == 0 and rc1 != 0 and rc2 == 0) else 1
def check(seed, pid, tier):
    meta = json.load(open(os.path.join(seed, "meta.json")))
    pid = pid or meta["property"]
    reset()
    rc, out = apply(seed)
    if rc: print("patch does not apply:", out); return 2
    t0 = time.time()
    r = subprocess.run([os.path.join(VERIF, "check"), pid, "--tier", tier], cwd=VERIF, env=dict(os.environ, VERIF_REPO=WT, VERIF_EVIDENCE_DIR="/tmp/verif-sens-evidence" + os.path.basename(WT), VERIF_REPLAY_OUT="/tmp/verif-sens-replays" + os.path.basename(WT)), capture_output=True, text=True)
    print("%s against %s: rc=%d (%.0fs)" % (pid, os.path.basename(seed.rstrip('/')), r.returncode, time.time() - t0))
    for l in r.stdout.splitlines():
        if l.startswith(("violation detail", "VIOLATION", "OK ", "KNOWN")): print("   " + l[:400])
    if r.returncode == 2: print(r.stderr[-1500:])
    reset()
    return r.returncode
if __name__ == "__main__":
    a = sys.argv[1:]
    tier = "quick"
    if "--tier" in a:
        i = a.index("--tier"); tier = a[i+1]; del a[i:i+2]
    if a[0] == "verify": sys.exit(verify(a[1]))
    if a[0] == "check": sys.exit(check(a[1], a[2] if len(a) > 2 else None, tier))
