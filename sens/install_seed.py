#!/usr/bin/env python3
"""sens/install_seed.py <seeddir> <name> <caught_by fingerprint text>: copy a verified seed into /verif/seeded/<name>/"""
import json, os, shutil, sys
src, name, caught = sys.argv[1], sys.argv[2], sys.argv[3]
dst = os.path.join(os.path.dirname(os.path.dirname(os.path.abspath(__file__))), "seeded", name)
shutil.rmtree(dst, ignore_errors=True); shutil.copytree(src, dst)
mp = os.path.join(dst, "meta.json"); m = json.load(open(mp))
m["breaks_property"] = m.get("property")
m["needs_to_manifest"] = m.get("needs")
m["confirmed_by_framework_author"] = {
  "how": "sens/seed.py verify (scratch worktree /var/tmp/vmut): demo passes without the change, fails with it; the touched packages' own tests pass with it",
  "check_run": "sens/seed.py check <seed> : ./check %s --tier quick with VERIF_REPO=<scratch worktree with the patch applied>" % m.get("property"),
  "check_result": caught }
json.dump(m, open(mp, "w"), indent=1)
print("installed", dst)
