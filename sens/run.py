#!/usr/bin/env python3
"""Sensitivity runner: applies each hand-written mutant of sens/mutants.json (textual
replacement in a scratch git worktree of /repo, never /repo itself) and runs the property's
quick check against it with VERIF_REPO pointing at the scratch tree. A mutant is 'killed'
when the check exits 1 with a VIOLATION line.
usage: sens/run.py [ID ...] [--name substr] [--tier quick]"""
import json, os, subprocess, sys, time
HERE = os.path.dirname(os.path.abspath(__file__))
VERIF = os.path.dirname(HERE)
WT = os.environ.get("VERIF_WT", "/var/tmp/vmut")

def sh(*a, **kw):
    return subprocess.run(a, capture_output=True, text=True, **kw)

def ensure_wt():
    if not os.path.isdir(WT):
        r = sh("git", "-C", "/repo", "worktree", "add", "--detach", WT, "HEAD")
        if r.returncode: sys.exit(r.stderr)
    else:
        head = sh("git", "-C", "/repo", "rev-parse", "HEAD").stdout.strip()
        sh("git", "-C", WT, "reset", "-q", "--hard")
        sh("git", "-C", WT, "checkout", "-q", "--detach", head)
        sh("git", "-C", WT, "reset", "-q", "--hard", head)
    sh("git", "-C", WT, "checkout", "--", ".")

def main():
    args = sys.argv[1:]
    name = None; tier = "quick"; ids = []
    i = 0
    while i < len(args):
        if args[i] == "--name": name = args[i+1]; i += 1
        elif args[i] == "--tier": tier = args[i+1]; i += 1
        else: ids.append(args[i])
        i += 1
    muts = json.load(open(os.path.join(HERE, "mutants.json")))
    ensure_wt()
    results = []
    for m in muts:
        if ids and m["id"] not in ids: continue
        if name and name not in m["name"]: continue
        sh("git", "-C", WT, "checkout", "--", ".")
        ok = True
        for e in m["edits"]:
            p = os.path.join(WT, e["file"])
            s = open(p).read()
            if s.count(e["old"]) < 1:
                print("MUTANT %s/%s: pattern not found in %s" % (m["id"], m["name"], e["file"])); ok = False; break
            s = s.replace(e["old"], e["new"], e.get("count", 1))
            open(p, "w").write(s)
        if not ok:
            results.append((m["id"], m["name"], "NOPATTERN", 0)); continue
        env = dict(os.environ, VERIF_REPO=WT, VERIF_EVIDENCE_DIR="/tmp/verif-sens-evidence", VERIF_REPLAY_OUT="/tmp/verif-sens-replays")
        t0 = time.time()
        r = subprocess.run([os.path.join(VERIF, "check"), m["id"], "--tier", tier], cwd=VERIF, env=env, capture_output=True, text=True)
        dt = time.time() - t0
        st = {0: "SURVIVED", 1: "killed", 2: "UNDECIDED"}.get(r.returncode, "rc%d" % r.returncode)
        detail = ""
        for line in r.stdout.splitlines():
            if line.startswith("violation detail"): detail = line[:200]
        if r.returncode == 2: detail = r.stderr[-600:]
        print("%-4s %-40s %-10s %5.1fs %s" % (m["id"], m["name"], st, dt, detail), flush=True)
        results.append((m["id"], m["name"], st, dt))
    sh("git", "-C", WT, "checkout", "--", ".")
    # evidence files were rewritten by mutant runs; they belong to the scratch tree, restore from git
    bad = [r for r in results if r[2] != "killed"]
    print("%d mutants, %d killed" % (len(results), len(results) - len(bad)))
    return 1 if bad else 0

if __name__ == "__main__":
    sys.exit(main())
