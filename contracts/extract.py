#!/usr/bin/env python3
"""Extracts, from the contract sources of the *current* tree, what the cross-language checks
(C04, C07, C11, C15) need: Ralph functions parsed into a small JSON AST that the Go harness
interprets, and the Solidity quorum formula / parseVM step list.

usage: extract.py <repo root> <out.json>     exit 0 ok, exit 3 "source refactored beyond the extractor"
"""
import json, os, re, sys


class ExtractError(Exception):
    pass


# ----------------------------------------------------------------------------- tokenizer
TOK = re.compile(r"""
    (?P<ws>\s+|//[^\n]*)
  | (?P<hex>0x[0-9a-fA-F]+)
  | (?P<num>\d[\d_]*(?:e\d+)?(?:\s*alph)?)
  | (?P<bytes>\#[0-9a-fA-F]*)
  | (?P<id>[A-Za-z_][A-Za-z0-9_]*!?)
  | (?P<op>\+\+|==|!=|<=|>=|&&|\|\||->|<<|>>|\+=|-=|[-+*/%<>=!(){}\[\],.:;@|&^])
""", re.X)


def tokenize(src):
    out = []
    pos = 0
    while pos < len(src):
        m = TOK.match(src, pos)
        if not m:
            raise ExtractError("cannot tokenize at: %r" % src[pos:pos + 40])
        pos = m.end()
        k = m.lastgroup
        if k == "ws":
            continue
        out.append((k, m.group(k)))
    return out


# ----------------------------------------------------------------------------- Ralph parser
BINPREC = [["||"], ["&&"], ["==", "!=", "<", "<=", ">", ">="], ["++"], ["|"], ["^"], ["&"], ["<<", ">>"], ["+", "-"], ["*", "/", "%"]]


class P:
    def __init__(self, toks):
        self.t = toks
        self.i = 0

    def peek(self, k=0):
        return self.t[self.i + k] if self.i + k < len(self.t) else ("eof", "")

    def next(self):
        tok = self.peek()
        self.i += 1
        return tok

    def accept(self, v):
        if self.peek()[1] == v:
            self.i += 1
            return True
        return False

    def expect(self, v):
        if not self.accept(v):
            raise ExtractError("expected %r, found %r (context: %s)" % (v, self.peek()[1], " ".join(x[1] for x in self.t[max(0, self.i - 8):self.i + 4])))

    # ---- statements
    def block(self):
        self.expect("{")
        out = []
        while not self.accept("}"):
            out.append(self.stmt())
        return out

    def stmt(self):
        k, v = self.peek()
        if v == "let":
            self.next()
            names = []
            if self.accept("("):
                while True:
                    self.accept("mut")
                    names.append(self.next()[1])
                    if self.accept(")"):
                        break
                    self.expect(",")
            else:
                self.accept("mut")
                names.append(self.next()[1])
            self.expect("=")
            return {"s": "let", "names": names, "e": self.expr()}
        if v == "return":
            self.next()
            es = []
            if self.peek()[1] not in ("}",):
                es.append(self.expr())
                while self.accept(","):
                    es.append(self.expr())
            return {"s": "return", "es": es}
        if v == "if":
            return self.ifstmt()
        if v == "for":
            self.next()
            self.expect("(")
            init = self.stmt()
            self.expect(";")
            c = self.expr()
            self.expect(";")
            upd = self.stmt()
            self.expect(")")
            return {"s": "for", "init": init, "c": c, "upd": upd, "body": self.block()}
        if v == "while":
            self.next()
            self.expect("(")
            c = self.expr()
            self.expect(")")
            return {"s": "while", "c": c, "body": self.block()}
        if v == "emit":
            self.next()
            name = self.next()[1]
            return {"s": "emit", "name": name, "args": self.args()}
        e = self.expr()
        if self.accept("="):
            return {"s": "assign", "target": e, "e": self.expr()}
        return {"s": "expr", "e": e}

    def ifstmt(self):
        self.expect("if")
        self.expect("(")
        c = self.expr()
        self.expect(")")
        then = self.block()
        els = []
        if self.accept("else"):
            if self.peek()[1] == "if":
                els = [self.ifstmt()]
            else:
                els = self.block()
        return {"s": "if", "c": c, "then": then, "else": els}

    # ---- expressions
    def args(self):
        self.expect("(")
        out = []
        if self.accept(")"):
            return out
        while True:
            out.append(self.expr())
            if self.accept(")"):
                return out
            self.expect(",")

    def expr(self, level=0):
        if level == len(BINPREC):
            return self.unary()
        l = self.expr(level + 1)
        while self.peek()[0] == "op" and self.peek()[1] in BINPREC[level]:
            op = self.next()[1]
            r = self.expr(level + 1)
            l = {"t": "bin", "op": op, "l": l, "r": r}
        return l

    def unary(self):
        if self.peek()[1] in ("!", "-"):
            op = self.next()[1]
            return {"t": "un", "op": op, "x": self.unary()}
        return self.postfix()

    def skip_braces(self):
        depth = 0
        while True:
            v = self.next()[1]
            if v == "{":
                depth += 1
            elif v == "}":
                depth -= 1
                if depth == 0:
                    return
            elif v == "":
                raise ExtractError("unbalanced braces")

    def postfix(self):
        e = self.primary()
        while True:
            v = self.peek()[1]
            if v == ".":
                self.next()
                name = self.next()[1]
                if self.peek()[1] == "{":  # approved assets
                    self.skip_braces()
                if self.peek()[1] == "(":
                    e = {"t": "mcall", "o": e, "f": name, "args": self.args()}
                else:
                    e = {"t": "member", "o": e, "n": name}
            elif v == "(" and e["t"] in ("id",):
                e = {"t": "call", "f": e["n"], "args": self.args()}
            elif v == "{" and e["t"] == "id" and self.looks_like_approval():
                self.skip_braces()
                e = {"t": "call", "f": e["n"], "args": self.args()}
            elif v == "[":
                self.next()
                i = self.expr()
                self.expect("]")
                e = {"t": "index", "o": e, "i": i}
            else:
                return e

    def looks_like_approval(self):
        # name{payer -> ALPH: amount}(args)
        j = self.i
        depth = 0
        while j < len(self.t):
            v = self.t[j][1]
            if v == "{":
                depth += 1
            elif v == "}":
                depth -= 1
                if depth == 0:
                    return j + 1 < len(self.t) and self.t[j + 1][1] == "(" and any(x[1] == "->" for x in self.t[self.i:j])
            j += 1
        return False

    def primary(self):
        k, v = self.next()
        if k == "hex":
            return {"t": "num", "v": str(int(v, 16))}
        if k == "num":
            v = v.replace("_", "")
            if v.endswith("alph"):
                return {"t": "num", "v": str(int(float(v[:-4].strip()) * 10 ** 18))}
            if "e" in v:
                a, b = v.split("e")
                return {"t": "num", "v": str(int(a) * 10 ** int(b))}
            return {"t": "num", "v": v}
        if k == "bytes":
            return {"t": "bytes", "v": v[1:]}
        if k == "id":
            if v in ("true", "false"):
                return {"t": "bool", "v": v == "true"}
            return {"t": "id", "n": v}
        if v == "(":
            e = self.expr()
            self.expect(")")
            return e
        raise ExtractError("unexpected token %r" % v)


def strip_comments(src):
    return re.sub(r"//[^\n]*", "", src)


def find_function(src, name):
    m = re.search(r"\bfn\s+%s\s*\(" % re.escape(name), src)
    if not m:
        raise ExtractError("function %s not found" % name)
    # parameters
    i = m.end()
    depth = 1
    while depth:
        c = src[i]
        depth += c == "("
        depth -= c == ")"
        i += 1
    params_src = src[m.end():i - 1]
    params = []
    for part in re.split(r",(?![^\[]*\])", params_src):
        part = part.strip()
        if not part:
            continue
        pm = re.match(r"(?:@unused\s+)?(?:mut\s+)?(\w+)\s*:", part)
        if not pm:
            raise ExtractError("cannot parse parameter %r of %s" % (part, name))
        params.append(pm.group(1))
    j = src.index("{", i)
    depth = 0
    k = j
    while True:
        c = src[k]
        depth += c == "{"
        depth -= c == "}"
        k += 1
        if depth == 0:
            break
    body_src = src[j:k]
    body = P(tokenize(body_src)).block()
    return {"name": name, "params": params, "body": body}


def file_consts(src):
    consts = {}
    for m in re.finditer(r"^\s*const\s+(\w+)\s*=\s*([^\n/]+)", src, re.M):
        consts[m.group(1)] = P(tokenize(m.group(2).strip())).expr()
    for m in re.finditer(r"\benum\s+(\w+)\s*\{([^}]*)\}", src):
        for em in re.finditer(r"(\w+)\s*=\s*([^\s]+)", m.group(2)):
            consts[m.group(1) + "." + em.group(1)] = P(tokenize(em.group(2))).expr()
    return consts


def event_fields(src, name):
    m = re.search(r"\bevent\s+%s\s*\(([^)]*)\)" % name, src)
    if not m:
        raise ExtractError("event %s not found" % name)
    return [p.strip().split(":")[0].strip() for p in m.group(1).split(",")]


RALPH = {
    "alephium/contracts/governance.ral": ["publishWormholeMessage", "parseAndVerifyVAA", "parseAndVerifyGovernanceVAAGeneric", "parseAndVerifyGovernanceVAA", "submitNewGuardianSet", "submitSetMessageFee", "submitTransferFees", "submitContractUpgrade"],
    "alephium/contracts/token_bridge/token_bridge_governance.ral": ["parseAndVerifyGovernanceVAA", "parseAndVerifyRegisterChain", "upgradeContract", "destroyUnexecutedSequenceContracts", "updateMinimalConsistencyLevel", "updateRefundAddress"],
    "alephium/contracts/token_bridge/token_bridge.ral": ["attestToken"],
    "alephium/contracts/token_bridge/token_bridge_factory.ral": ["parseContractUpgrade"],
}


def extract_ralph(root):
    out = {}
    for rel, fns in RALPH.items():
        p = os.path.join(root, rel)
        if not os.path.exists(p):
            raise ExtractError("missing %s" % rel)
        src = strip_comments(open(p).read())
        entry = {"consts": file_consts(src), "functions": {}}
        for fn in fns:
            entry["functions"][fn] = find_function(src, fn)
        if rel.endswith("governance.ral") and "token_bridge" not in rel:
            entry["event_WormholeMessage"] = event_fields(src, "WormholeMessage")
        out[rel] = entry
    # shared constants (PayloadId, Path, ...)
    extra = {}
    for rel in ["alephium/contracts/token_bridge/token_bridge_constants.ral", "alephium/contracts/constants.ral"]:
        p = os.path.join(root, rel)
        if os.path.exists(p):
            extra.update(file_consts(strip_comments(open(p).read())))
    out["shared_consts"] = extra
    return out


# ----------------------------------------------------------------------------- Solidity
WIDTH = {"toUint8": 1, "toUint16": 2, "toUint32": 4, "toUint64": 8, "toBytes32": 32}


def extract_solidity(root):
    p = os.path.join(root, "ethereum/contracts/Messages.sol")
    src = strip_comments(open(p).read())
    src = re.sub(r"/\*.*?\*/", "", src, flags=re.S)
    # quorum(): zero or more require(cond[, "message"]); statements, then return <expr>;
    m = re.search(r"function\s+quorum\s*\(\s*uint(?:256)?\s+(\w+)\s*\)[^{]*\{((?:\s*require\s*\([^;]*\)\s*;)*)\s*return\s+([^;]+);\s*\}", src)
    if not m:
        raise ExtractError("Messages.sol: quorum() not found (expected require(...); statements followed by return <expr>;)")
    requires = []
    for rm in re.finditer(r"require\s*\((.*?)\)\s*;", m.group(2), flags=re.S):
        cond = rm.group(1)
        cm = re.match(r'^(.*?)(?:,\s*"[^"]*"\s*)?$', cond, flags=re.S)
        requires.append(P(tokenize(cm.group(1))).expr())
    quorum = {"param": m.group(1), "expr": P(tokenize(m.group(3))).expr(), "requires": requires}
    m = re.search(r"function\s+parseVM\s*\(", src)
    if not m:
        raise ExtractError("Messages.sol: parseVM not found")
    j = src.index("{", m.end())
    depth = 0
    k = j
    while True:
        depth += src[k] == "{"
        depth -= src[k] == "}"
        k += 1
        if depth == 0:
            break
    body = src[j:k]
    fm = re.search(r"for\s*\([^)]*\)\s*\{", body)
    if not fm:
        raise ExtractError("parseVM: signature loop not found")
    # end of loop
    d = 0
    e = fm.end() - 1
    while True:
        d += body[e] == "{"
        d -= body[e] == "}"
        e += 1
        if d == 0:
            break
    segs = {"header": body[:fm.start()], "sig": body[fm.end():e - 1], "body": body[e:]}
    steps = {}
    stmt = re.compile(r"(vm(?:\.\w+|\.signatures\[i\]\.\w+)|uint256\s+\w+|\w+)\s*=\s*encodedVM\.(\w+)\(index\)(\s*\+\s*27)?\s*;\s*index\s*\+=\s*(\d+)\s*;")
    for name, seg in segs.items():
        lst = []
        for sm in stmt.finditer(seg):
            field = sm.group(1).split()[-1].split(".")[-1]
            fn = sm.group(2)
            if fn not in WIDTH:
                raise ExtractError("parseVM: unknown reader %s" % fn)
            lst.append({"field": field, "reader": fn, "width": WIDTH[fn], "advance": int(sm.group(4))})
        steps[name] = lst
    if not steps["header"] or not steps["sig"] or not steps["body"]:
        raise ExtractError("parseVM: could not extract the read steps")
    hm = re.search(r"bytes\s+memory\s+body\s*=\s*encodedVM\.slice\(\s*index\s*,\s*encodedVM\.length\s*-\s*index\s*\)\s*;\s*vm\.hash\s*=\s*keccak256\(\s*abi\.encodePacked\(\s*keccak256\(\s*body\s*\)\s*\)\s*\)", segs["body"])
    pm = re.search(r"vm\.payload\s*=\s*encodedVM\.slice\(\s*index\s*,\s*encodedVM\.length\s*-\s*index\s*\)", segs["body"])
    vm = re.search(r'require\(\s*vm\.version\s*==\s*(\d+)', segs["header"])
    return {"quorum": quorum, "parseVM": steps, "hash_is_double_keccak_of_rest_after_signatures": bool(hm),
            "payload_is_rest": bool(pm), "required_version": int(vm.group(1)) if vm else None}


def main():
    root, out = sys.argv[1], sys.argv[2]
    try:
        data = {"ralph": extract_ralph(root), "solidity": extract_solidity(root)}
    except ExtractError as e:
        print("extract: %s" % e, file=sys.stderr)
        return 3
    except (IndexError, ValueError, OSError) as e:
        print("extract: %s: %s" % (type(e).__name__, e), file=sys.stderr)
        return 3
    with open(out, "w") as f:
        json.dump(data, f, indent=1)
    return 0


if __name__ == "__main__":
    sys.exit(main())
