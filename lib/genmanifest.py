#!/usr/bin/env python3
"""Regenerates /verif/MANIFEST.json from lib/props.py (checks) and properties.jsonl (ids)."""
import json, os, sys
HERE = os.path.dirname(os.path.abspath(__file__)); VERIF = os.path.dirname(HERE)
sys.path.insert(0, HERE)
import props
ids = [json.loads(l)["id"] for l in open(os.path.join(VERIF, "properties.jsonl"))]
checks = []
for pid in ids:
    if pid not in props.PROPS: continue
    s = props.PROPS[pid]
    checks.append({
        "property_id": pid,
        "quick_cmd": "./check %s --tier quick" % pid,
        "thorough_cmd": "./check %s --tier thorough" % pid,
        "evidence_file": "/verif/evidence/%s.json" % pid,
        "replay_cmd_template": "./check %s --replay {path}" % pid,
        "engine": "pbt-go-inpackage",
        "level_claimed": {"category": s.get("level", "exploration"),
                          "text": s.get("level_text", "generated-input search (rapid) against an explicit oracle; held on everything explored, absence of violations is not established"),
                          "design_ref": "DESIGN.md section 3, " + pid},
        "level_note": "; ".join(s.get("assumptions", [])) or "see DESIGN.md",
        "technique": s.get("technique", "property-based testing (pgregory.net/rapid), in-package harness via go test -overlay"),
    })
na = [{"property_id": pid, "reason": props.NOT_APPLICABLE.get(pid, "check not built yet in this session (planned in DESIGN.md section 3); not claimed until it runs")} for pid in ids if pid not in props.PROPS]
man = {
 "version": 1,
 "setup_cmd": "./check setup",
 "hooks": {
  "guard": "verif",
  "enable": "no source hooks in /repo: harness files carrying //go:build verif are compiled into the packages of /repo's current working tree with go test -tags verif -overlay <generated> -modfile <copy of go.mod + rapid>; see DESIGN.md section 0",
  "baseline_off_cmd": "for m in clients/eth explorer-api-server explorer-backend node; do (cd /repo/$m && go test -mod=mod -json -vet=off -count=1 -timeout 25m ./...); done",
  "source_commits": [],
  "add_only": True
 },
 "engines": [{"name": "pbt-go-inpackage", "path": "/verif/check", "serves_properties": [c["property_id"] for c in checks],
              "kind_free_text": "python driver + Go harness files overlaid into the packages under test; rapid v1.3.0 generators, shrinking to JSON replay files, native go fuzz in thorough tiers"}],
 "checks": checks,
 "not_applicable": na,
 "notes": "exit 0 held / 1 VIOLATION / 2 undecided (never a violation). Known findings: /verif/known_findings.txt. Seeded changes used to test sensitivity: /verif/seeded/, hand-written mutants: /verif/sens/mutants.json."
}
json.dump(man, open(os.path.join(VERIF, "MANIFEST.json"), "w"), indent=1)
print("checks:", [c["property_id"] for c in checks]); print("not_applicable:", [n["property_id"] for n in na])
