"""Driver for the property checks: builds the overlay, compiles the in-package harness
against the *current* working tree of the repository, runs the generated-input search,
collects statistics, confirms failures by replay and writes the evidence file.

Exit codes: 0 held on everything explored; 1 with a VIOLATION line; 2 undecided
(harness/repo build failure, time budget, worker death, flaky failure)."""
import hashlib
import json
import os
import re
import shutil
import subprocess
import sys
import time
from concurrent.futures import ThreadPoolExecutor

VERIF = os.path.dirname(os.path.dirname(os.path.abspath(__file__)))
REPO = os.environ.get("VERIF_REPO", "/repo")
GOMODCACHE = os.environ.get("GOMODCACHE", "/root/go/pkg/mod")
WORKROOT = os.path.join(VERIF, ".work")
STUBS = os.path.join(WORKROOT, "stubs")
KNOWN_FILE = os.path.join(VERIF, "known_findings.txt")

MODULE_PATH = {
    "node": "github.com/alephium/wormhole-fork/node",
    "explorer-backend": "github.com/alephium/wormhole-fork/explorer-backend",
}


def goenv():
    e = dict(os.environ)
    e.update(
        GOFLAGS="-mod=mod",
        GOPROXY="off",
        GOSUMDB="off",
        GOTOOLCHAIN="local",
        CGO_ENABLED="1",
        GONOSUMDB="*",
        GONOSUMCHECK="1",
    )
    e.pop("GOWORK", None)
    return e


def log(*a):
    print(*a, file=sys.stderr, flush=True)


class Undecided(Exception):
    pass


# ----------------------------------------------------------------------------- stubs
QUIC_GO120 = "github.com/lucas-clemente/quic-go@v0.28.1/internal/qtls/go120.go"
QTLS_UNSAFE = "github.com/marten-seemann/qtls-go1-19@v0.1.0/unsafe.go"


def ensure_stubs():
    """Two replacement files that let libp2p's quic dependency compile on Go >= 1.20.
    Generated from the module cache on disk; nothing is fetched."""
    os.makedirs(STUBS, exist_ok=True)
    a = os.path.join(STUBS, "quic_go120.go")
    b = os.path.join(STUBS, "qtls_unsafe.go")
    if not os.path.exists(a):
        with open(a + ".tmp", "w") as f:
            f.write("package qtls\n")
        os.replace(a + ".tmp", a)
    if not os.path.exists(b):
        src = open(os.path.join(GOMODCACHE, QTLS_UNSAFE)).read()
        if "func init() {" not in src:
            raise Undecided("qtls unsafe.go has no init() to neutralise")
        src = src.replace("func init() {", "func verifDisabledInit() {", 1)
        with open(b + ".tmp", "w") as f:
            f.write(src)
        os.replace(b + ".tmp", b)
    return {
        os.path.join(GOMODCACHE, QUIC_GO120): a,
        os.path.join(GOMODCACHE, QTLS_UNSAFE): b,
    }


# ----------------------------------------------------------------------------- overlay
def harness_files(module):
    """yield (repo_target_path, verif_source_path) for the module's harness."""
    out = {}
    common = os.path.join(VERIF, "harness", "common")
    for fn in sorted(os.listdir(common)):
        if fn.endswith(".go"):
            out[os.path.join(REPO, module, "zzverif", fn)] = os.path.join(common, fn)
    root = os.path.join(VERIF, "harness", module)
    if os.path.isdir(root):
        for d, _, files in os.walk(root):
            rel = os.path.relpath(d, root)
            for fn in sorted(files):
                if fn.endswith(".go"):
                    tgt = os.path.join(REPO, module, rel, "zz_verif_" + fn)
                    out[os.path.normpath(tgt)] = os.path.join(d, fn)
    return out


def build_env(work, module):
    """Create overlay.json and the modfile copy for module inside work; returns (overlay, modfile)."""
    ov = dict(ensure_stubs())
    ov.update(harness_files(module))
    overlay = os.path.join(work, "overlay-%s.json" % module)
    with open(overlay, "w") as f:
        json.dump({"Replace": ov}, f, indent=1)
    modsrc = os.path.join(REPO, module, "go.mod")
    sumsrc = os.path.join(REPO, module, "go.sum")
    modfile = os.path.join(work, module + ".mod")
    mod = open(modsrc).read()
    if "pgregory.net/rapid" not in mod:
        mod += "\nrequire pgregory.net/rapid v1.3.0\n"
    with open(modfile, "w") as f:
        f.write(mod)
    shutil.copy(sumsrc, os.path.join(work, module + ".sum"))
    return overlay, modfile


_build_cache = {}


def module_lang(module):
    m = re.search(r"^go\s+(\d+\.\d+)", open(os.path.join(REPO, module, "go.mod")).read(), re.M)
    return "go" + m.group(1) if m else None


def module_path(module):
    m = re.search(r"^module\s+(\S+)", open(os.path.join(REPO, module, "go.mod")).read(), re.M)
    return m.group(1)


def build_test_binary(work, module, pkg, race=False):
    key = (module, pkg, race)
    if key in _build_cache:
        return _build_cache[key]
    overlay, modfile = build_env(work, module)
    out = os.path.join(work, "bin-%s-%s%s.test" % (module, pkg.strip("./").replace("/", "_"), "-race" if race else ""))
    # rapid v1.3.0 declares go 1.23, which makes the go command raise the go directive of the (copied) go.mod; the
    # module's own packages must nevertheless be compiled with the language version the repository declares
    # (loop-variable semantics changed in go 1.22), so it is pinned per package pattern
    lang = module_lang(module)
    modpath = module_path(module)
    cmd = ["go", "test", "-c", "-vet=off", "-tags", "verif", "-overlay", overlay, "-modfile", modfile, "-o", out]
    if lang:
        cmd += ["-gcflags=%s/...=-lang=%s" % (modpath, lang)]
    if race:
        cmd.append("-race")
    cmd.append(pkg)
    t0 = time.time()
    r = subprocess.run(cmd, cwd=os.path.join(REPO, module), env=goenv(), capture_output=True, text=True)
    if r.returncode != 0 or not os.path.exists(out):
        raise Undecided("build failed for %s %s:\n%s\n%s" % (module, pkg, r.stdout[-4000:], r.stderr[-8000:]))
    log("[build] %s %s%s in %.1fs" % (module, pkg, " -race" if race else "", time.time() - t0))
    _build_cache[key] = out
    return out


# ----------------------------------------------------------------------------- known findings
def load_known(pid):
    """Lines: 'finding: property=C20 fingerprint=<fp> <what fails>' (open) and
    'fixed: property=C05 <commit> <what failed>' (suppresses nothing)."""
    open_f = []
    if os.path.exists(KNOWN_FILE):
        for line in open(KNOWN_FILE):
            line = line.strip()
            m = re.match(r"finding:\s+property=(\S+)\s+fingerprint=(\S+)\s+(.*)", line)
            if m and m.group(1) == pid:
                open_f.append((m.group(2), m.group(3)))
    return open_f


# ----------------------------------------------------------------------------- running
def derive_seed(base, uidx, shard):
    h = hashlib.sha256(("%d/%d/%d" % (base, uidx, shard)).encode()).digest()
    s = int.from_bytes(h[:8], "big") >> 1
    return s or 1


def run_proc(cmd, cwd, env, timeout):
    t0 = time.time()
    try:
        r = subprocess.run(cmd, cwd=cwd, env=env, capture_output=True, text=True, timeout=timeout, errors="replace")
        return r.returncode, r.stdout + r.stderr, time.time() - t0, False
    except subprocess.TimeoutExpired as e:
        out = (e.stdout or b"") + (e.stderr or b"")
        if isinstance(out, bytes):
            out = out.decode(errors="replace")
        return -9, out, time.time() - t0, True


def pid_of(ff):
    return str(ff.get("property", "?"))


def panic_excerpt(out):
    i = out.find("panic:")
    return out[i:i + 2500] if i >= 0 else out[-2500:]


def crash_in_code_under_test(out):
    """True if the test binary died from a Go panic whose first non-runtime frame is not harness code."""
    i = out.find("panic:")
    if i < 0 or "[recovered]" in out[i:i + 300]:
        return False
    j = out.find("goroutine ", i)
    if j < 0:
        return False
    lines = out[j:].split("\n")[1:]
    for k in range(0, len(lines) - 1, 2):
        fn, loc = lines[k], lines[k + 1].strip()
        if not fn.strip():
            break
        if fn.startswith("panic(") or "/runtime/" in loc or fn.startswith("runtime.") or "/src/testing/" in loc:
            continue
        return "zz_verif_" not in loc and "/zzverif/" not in loc
    return False


def race_in_code_under_test(out):
    """True if a race report's two access stacks both top out in non-harness code of the repository."""
    i = out.find("WARNING: DATA RACE")
    if i < 0:
        return False
    rep = out[i:out.find("==================", i + 20) if out.find("==================", i + 20) > 0 else i + 6000]
    tops = []
    for block in re.split(r"\n\n", rep):
        m = re.match(r"\s*(?:WARNING: DATA RACE\n)?(Read at|Write at|Previous read at|Previous write at)", block)
        if not m:
            continue
        lines = block.strip().split("\n")
        for k in range(1, len(lines) - 1, 2):
            loc = lines[k + 1].strip()
            if "/runtime/" in loc or "/src/sync/" in loc or "/src/internal/" in loc:
                continue
            tops.append(loc)
            break
    return len(tops) >= 2 and all("zz_verif_" not in t and "/zzverif/" not in t and "/pkg/mod/" not in t for t in tops)


class UnitResult:
    def __init__(self):
        self.stats = []
        self.violation = None  # (failcase_path, fingerprint, msg)
        self.undecided = None
        self.passed = 0
        self.requested = 0


def run_fuzz_unit(work, pid, uidx, unit, tier):
    """Native go fuzzing of an exported decoder from the external module harness/ext (thorough tier).
    A crasher is converted into a replay case of the in-package unit named by unit['as_test']."""
    res = UnitResult()
    tcfg = unit[tier]
    ext = os.path.join(VERIF, "harness", "ext")
    ov = dict(ensure_stubs())
    common = os.path.join(VERIF, "harness", "common")
    for fn in sorted(os.listdir(common)):
        if fn.endswith(".go"):
            ov[os.path.join(ext, "vh", fn)] = os.path.join(common, fn)
    overlay = os.path.join(work, "overlay-ext.json")
    json.dump({"Replace": ov}, open(overlay, "w"))
    modfile = os.path.join(work, "ext.mod")
    nodemod = open(os.path.join(REPO, "node", "go.mod")).read()
    req = nodemod[nodemod.index("require ("):]
    with open(modfile, "w") as f:
        f.write("module verif/ext\n\ngo 1.19\n\nrequire github.com/alephium/wormhole-fork/node v0.0.0\nrequire pgregory.net/rapid v1.3.0\n\nreplace github.com/alephium/wormhole-fork/node => %s\n\n%s" % (os.path.join(REPO, "node"), req))
    shutil.copy(os.path.join(REPO, "node", "go.sum"), os.path.join(work, "ext.sum"))
    corpus = os.path.join(ext, "testdata", "fuzz", unit["fuzz"])
    before = set(os.listdir(corpus)) if os.path.isdir(corpus) else set()
    cache = os.path.join(work, "fuzzcache")
    cmd = ["go", "test", "-vet=off", "-tags", "verif", "-overlay", overlay, "-modfile", modfile, "-gcflags=%s/...=-lang=%s" % (module_path("node"), module_lang("node")), "-run", "^$", "-fuzz", "^%s$" % unit["fuzz"],
           "-fuzztime", tcfg.get("fuzztime", "60s"), "-test.fuzzcachedir", cache, "."]
    rc, out, dt, timed_out = run_proc(cmd, ext, goenv(), tcfg.get("timeout", 900))
    m = re.findall(r"execs: (\d+)", out)
    execs = int(m[-1]) if m else 0
    res.stats.append({"test": unit["fuzz"], "evaluations": execs, "labels": {"native-fuzz-execs": execs}, "nontrivial_hashes": [], "samples": []})
    after = set(os.listdir(corpus)) if os.path.isdir(corpus) else set()
    new = sorted(after - before)
    if rc != 0 and new:
        raw = open(os.path.join(corpus, new[0])).read()
        mm = re.search(r'\[\]byte\((".*")\)', raw, re.S)
        data = b""
        if mm:
            import ast
            try:
                data = ast.literal_eval("b" + mm.group(1))
            except Exception:
                data = b""
        ff = {"property": pid, "test": unit["as_test"], "fingerprint": pid + "/native-fuzz-crasher", "msg": out[-1500:], "case": {"rawhex": data.hex(), "base": {"version": 1, "gs": 0, "sigs": [], "body": {}, "nanos": 0}, "muts": []}}
        failf = os.path.join(work, "fuzz-failcase.json")
        json.dump(ff, open(failf, "w"), indent=1)
        res.violation = (failf, ff["fingerprint"], ff["msg"], out)
        for n in new:  # the crasher is carried by the replay file; keep the module directory clean
            os.remove(os.path.join(corpus, n))
    elif timed_out:
        res.undecided = "fuzz unit %s: time budget hit" % unit["fuzz"]
    elif rc != 0:
        res.undecided = "fuzz unit %s failed without a crasher:\n%s" % (unit["fuzz"], out[-2000:])
    return res


def run_unit(work, pid, uidx, unit, tier, base_seed, known_fps, replay=None, repeat=1):
    if unit.get("kind") == "fuzz":
        if replay:
            return UnitResult()
        return run_fuzz_unit(work, pid, uidx, unit, tier)
    module = unit.get("module", "node")
    binp = build_test_binary(work, module, unit["pkg"], unit.get("race", False))
    tcfg = unit[tier]
    checks = tcfg.get("checks", 0)
    shards = 1 if replay else tcfg.get("shards", 1)
    timeout = tcfg.get("timeout", 600)
    res = UnitResult()
    res.requested = checks * shards

    def one(shard):
        sdir = os.path.join(work, "u%d-s%d" % (uidx, shard))
        os.makedirs(sdir, exist_ok=True)
        statsf = os.path.join(sdir, "stats.json")
        failf = os.path.join(sdir, "failcase.json")
        env = goenv()
        seed = derive_seed(base_seed, uidx, shard)
        env.update(
            VERIF_STATS=statsf,
            VERIF_FAILCASE=failf,
            VERIF_KNOWN=",".join(known_fps),
            VERIF_TIER=tier,
            VERIF_SEED=str(seed),
            VERIF_REPO=REPO,
            VERIF_DIR=VERIF,
            VERIF_SCRATCH=sdir,
            TMPDIR=sdir,
        )
        for k, v in tcfg.get("env", {}).items():
            env[k] = str(v)
        curf = os.path.join(sdir, "curcase.json")
        if (unit.get("crash_is_violation") or unit.get("race")) and not replay:
            env["VERIF_CURCASE"] = curf
        if replay:
            env["VERIF_REPLAY"] = replay
            if repeat > 1:
                env["VERIF_REPLAY_REPEAT"] = str(repeat)
        cmd = [binp, "-test.run", "^%s$" % unit["test"], "-test.timeout", "%ds" % (timeout + 30), "-test.count", "1"]
        if unit.get("kind", "rapid") == "rapid":
            cmd += ["-rapid.checks", str(checks), "-rapid.seed", str(seed), "-rapid.nofailfile", "-test.v"]
            cmd += ["-rapid.shrinktime", tcfg.get("shrinktime", "45s")]
        else:
            cmd += ["-test.v"]
        rc, out, dt, timed_out = run_proc(cmd, sdir, env, timeout + 60)
        return shard, rc, out, dt, timed_out, statsf, failf, seed

    with ThreadPoolExecutor(max_workers=min(shards, os.cpu_count() or 1)) as ex:
        results = list(ex.map(one, range(shards)))

    for shard, rc, out, dt, timed_out, statsf, failf, seed in results:
        if os.path.exists(statsf):
            try:
                res.stats.append(json.load(open(statsf)))
            except Exception:
                pass
        if timed_out or "panic: test timed out" in out:
            res.undecided = "unit %s shard %d: time budget hit after %.0fs" % (unit["test"], shard, dt)
            continue
        if rc == 0:
            if "no tests to run" in out:
                res.undecided = "unit %s: test function not found in binary" % unit["test"]
                continue
            if unit.get("kind", "rapid") == "rapid" and not replay:
                m = re.search(r"\[rapid\] OK, passed (\d+) tests", out)
                if not m:
                    if "--- SKIP" in out:
                        continue
                    res.undecided = "unit %s shard %d: no rapid summary in output" % (unit["test"], shard)
                    continue
                n = int(m.group(1))
                res.passed += n
                if n < checks:
                    res.undecided = "unit %s shard %d: only %d of %d cases ran before the deadline" % (unit["test"], shard, n, checks)
            continue
        # non-zero exit
        if os.path.exists(failf):
            try:
                ff = json.load(open(failf))
            except Exception:
                ff = {"fingerprint": "unparsable", "msg": ""}
            if str(ff.get("fingerprint", "")).startswith("harness/"):
                res.undecided = "unit %s shard %d: harness error %s: %s" % (unit["test"], shard, ff.get("fingerprint"), ff.get("msg", "")[:1500])
            elif res.violation is None:
                res.violation = (failf, ff.get("fingerprint", "?"), ff.get("msg", ""), out)
        elif unit.get("race") and race_in_code_under_test(out):
            # the race detector fired on an access inside the code under test
            sdir = os.path.dirname(statsf)
            src = replay if replay else os.path.join(sdir, "curcase.json")
            if os.path.exists(src) and res.violation is None:
                ff = json.load(open(src))
                ff["fingerprint"] = pid_of(ff) + "/data-race"
                i = out.find("WARNING: DATA RACE")
                ff["msg"] = "the race detector reported a data race in the code under test:\n" + out[i:i + 3000]
                crashf = os.path.join(sdir, "racecase.json")
                json.dump(ff, open(crashf, "w"), indent=1)
                res.violation = (crashf, ff["fingerprint"], ff["msg"], out)
            elif res.violation is None:
                res.undecided = "unit %s shard %d: data race reported but the case was not recorded:\n%s" % (unit["test"], shard, out[-2000:])
        elif unit.get("crash_is_violation") and crash_in_code_under_test(out):
            # the process died from a panic raised outside the harness: a crash of the code under test
            sdir = os.path.dirname(statsf)
            curf = os.path.join(sdir, "curcase.json")
            src = replay if replay else curf
            if os.path.exists(src) and res.violation is None:
                ff = json.load(open(src))
                ff["fingerprint"] = pid_of(ff) + "/process-crash"
                ff["msg"] = "the process died with a panic in the code under test:\n" + panic_excerpt(out)
                crashf = os.path.join(sdir, "crashcase.json")
                json.dump(ff, open(crashf, "w"), indent=1)
                res.violation = (crashf, ff["fingerprint"], ff["msg"], out)
            elif res.violation is None:
                res.undecided = "unit %s shard %d: process crashed in the code under test but the case was not recorded:\n%s" % (unit["test"], shard, out[-2000:])
        else:
            tail = out[-3000:]
            res.undecided = "unit %s shard %d: test process exited %d without a failing case (worker death / harness error):\n%s" % (unit["test"], shard, rc, tail)
    return res


def merge_stats(all_stats):
    ev = 0
    inconc = 0
    labels = {}
    hashes = set()
    samples = []
    known = {}
    known_samples = {}
    extra = {}
    per_test = {}
    for s in all_stats:
        ev += s.get("evaluations", 0)
        inconc += s.get("inconclusive", 0)
        for k, v in (s.get("labels") or {}).items():
            labels[k] = labels.get(k, 0) + v
        t = s.get("test", "?")
        hashes.update(t + ":" + h for h in (s.get("nontrivial_hashes") or []))
        pt = per_test.setdefault(t, {"evaluations": 0, "nontrivial": set()})
        pt["evaluations"] += s.get("evaluations", 0)
        pt["nontrivial"].update(s.get("nontrivial_hashes") or [])
        for smp in s.get("samples") or []:
            if len(samples) < 8:
                samples.append({"test": t, "case": smp})
        for k, v in (s.get("known_hits") or {}).items():
            known[k] = known.get(k, 0) + v
        for k, v in (s.get("known_samples") or {}).items():
            known_samples.setdefault(k, v)
        for k, v in (s.get("extra") or {}).items():
            extra.setdefault(t + "." + k, v)
    per_test = {k: {"evaluations": v["evaluations"], "distinct_nontrivial": len(v["nontrivial"])} for k, v in per_test.items()}
    return ev, inconc, labels, hashes, samples, known, known_samples, extra, per_test


def git_status():
    try:
        r = subprocess.run(["git", "-C", REPO, "status", "--porcelain"], capture_output=True, text=True, timeout=60)
        return r.stdout
    except Exception:
        return ""


def check_property(pid, spec, tier, replay=None, keep=False):
    t0 = time.time()
    _build_cache.clear()  # binaries live in the per-property work dir
    base_seed = int(os.environ.get("VERIF_SEED", "1") or "1")
    work = os.path.join(WORKROOT, "%s-%d" % (pid, os.getpid()))
    shutil.rmtree(work, ignore_errors=True)
    os.makedirs(work)
    evidence_path = os.path.join(os.environ.get("VERIF_EVIDENCE_DIR") or os.path.join(VERIF, "evidence"), pid + ".json")
    known = load_known(pid)
    known_fps = [k[0] for k in known]
    before = git_status()
    all_stats = []
    violation = None
    undecided = []
    unreproduced = []
    finding_reproduced = {}
    rc = 0
    try:
        units = spec["units"]
        pre = spec.get("pre")
        if pre:
            pre(work)  # e.g. contract-source extraction; raises Undecided
        if replay:
            ff = json.load(open(replay))
            units = [u for u in units if u["test"] == ff.get("test")] or units
        # probe of every listed open finding: its saved case is executed with the exclusion switched off. Only a
        # finding that still reproduces is announced as KNOWN-FINDING; a different failure of that case is a violation
        if not replay:
            import glob
            for fpk, _what in known:
                for fpath in sorted(glob.glob(os.path.join(VERIF, "findings", pid + "-*.json"))):
                    try:
                        ff = json.load(open(fpath))
                    except Exception:
                        continue
                    if ff.get("fingerprint") != fpk:
                        continue
                    for uidx, unit in enumerate(spec["units"]):
                        if unit["test"] != ff.get("test") or tier not in unit:
                            continue
                        pr = run_unit(work, pid, 3000 + uidx, unit, tier, base_seed, [], replay=fpath, repeat=unit.get("replay_repeat", 1))
                        if pr.violation and pr.violation[1] == fpk:
                            finding_reproduced[fpk] = fpath
                        elif pr.violation and violation is None:
                            violation = (fpath, pr.violation[1], pr.violation[2])
        # seconds-long regression tier: every saved case of this property is executed first
        if not replay:
            import glob
            for rp in sorted(glob.glob(os.path.join(VERIF, "replays", pid + "-*.json"))):
                try:
                    ff = json.load(open(rp))
                except Exception:
                    continue
                for uidx, unit in enumerate(spec["units"]):
                    if unit["test"] != ff.get("test") or tier not in unit:
                        continue
                    rr = run_unit(work, pid, 2000 + uidx, unit, tier, base_seed, known_fps, replay=rp)
                    all_stats += rr.stats
                    if rr.violation and violation is None:
                        violation = (rp, rr.violation[1], rr.violation[2])
                    elif rr.undecided:
                        undecided.append(rr.undecided)
                if violation:
                    break
        for uidx, unit in enumerate(spec["units"]):
            if violation:
                break
            if unit not in units:
                continue
            if tier not in unit:
                continue
            res = run_unit(work, pid, uidx, unit, tier, base_seed, known_fps, replay=replay, repeat=unit.get("replay_repeat", 1) if replay else 1)
            all_stats += res.stats
            if res.undecided:
                undecided.append(res.undecided)
            if res.violation and violation is None:
                failf, fp, msg, out = res.violation
                if replay:
                    violation = (replay, fp, msg)
                else:
                    # confirm by executing the shrunk case once outside rapid
                    # schedule-dependent properties get several attempts to reproduce the shrunk case
                    tries = unit.get("replay_tries", 1)
                    if unit.get("kind") == "fuzz":
                        unit = [u for u in spec["units"] if u["test"] == unit["as_test"]][0]
                    candidates = [failf] * tries
                    if os.path.exists(failf + ".first"):
                        # the first (unshrunk) failing case: shrinking can walk a case onto a boundary that moves with the
                        # wall clock or the schedule and then no longer fails a moment later
                        candidates += [failf + ".first"] * tries
                    for attempt, cand in enumerate(candidates):
                        r2 = run_unit(work + "", pid, 1000 + uidx + 100 * attempt, unit, tier, base_seed, known_fps, replay=cand, repeat=unit.get("replay_repeat", 1))
                        if r2.violation:
                            break
                    if r2.violation:
                        ff = json.load(open(r2.violation[0]))
                        h = hashlib.sha256(json.dumps(ff.get("case"), sort_keys=True).encode()).hexdigest()[:10]
                        dst = os.path.join(os.environ.get("VERIF_REPLAY_OUT") or os.path.join(VERIF, "replays"), "%s-%s.json" % (pid, h))
                        os.makedirs(os.path.dirname(dst), exist_ok=True)
                        shutil.copy(r2.violation[0], dst)
                        violation = (dst, r2.violation[1], r2.violation[2])
                    if not r2.violation:
                        # keep the case that failed once for inspection (scratch space, never read by a check)
                        try:
                            keep = os.path.join(VERIF, ".work", "unreproduced")
                            os.makedirs(keep, exist_ok=True)
                            for cand in set(candidates):
                                if os.path.exists(cand):
                                    shutil.copy(cand, os.path.join(keep, "%s-%d-%s" % (pid, int(time.time()), os.path.basename(cand))))
                        except OSError:
                            pass
                    if r2.violation:
                        pass
                    elif fp in (unit.get("wallclock_fps") or []):
                        # the oracle behind this fingerprint is a wall-clock bound (bounded liveness). A bound that was
                        # exceeded once and holds on every re-execution of the same case is a starved machine, not a
                        # verdict: inconclusive, never a violation (and not "undecided" either: everything else was judged)
                        unreproduced.append({"test": unit["test"], "fingerprint": fp, "msg": msg[:1500]})
                        print("note: %s: wall-clock bound %s exceeded once, not reproducible in %d re-executions of the same case: counted as inconclusive" % (unit["test"], fp, len(candidates)), flush=True)
                    else:
                        undecided.append("unit %s: failure %s did not reproduce from its saved case (flaky):\n%s" % (unit["test"], fp, msg[:4000]))
                break
    except Undecided as e:
        undecided.append(str(e))
    except Exception as e:  # a driver problem is never a verdict
        import traceback
        undecided.append("driver error: %s\n%s" % (e, traceback.format_exc()[-1500:]))
    after = git_status()
    if after != before:
        undecided.append("git status of %s changed during the run:\n%s" % (REPO, after))

    ev, inconc, labels, hashes, samples, known_hits, known_samples, extra, per_test = merge_stats(all_stats)
    wall = time.time() - t0
    cov = {
        "evaluations": ev,
        "distinct_nontrivial": len(hashes),
        "rule": spec["rule"],
        "samples": samples,
        "labels": labels,
        "per_test": per_test,
        "inconclusive_cases": inconc,
        "known_finding_hits": known_hits,
        "known_findings_reproduced_from_saved_case": sorted(finding_reproduced),
    }
    if unreproduced:
        cov["unreproduced_wallclock_failures"] = unreproduced
    if extra:
        cov["extra"] = extra
    if spec.get("exhaustive"):
        cov["exhaustive"] = True
    evd = {
        "property_id": pid,
        "tier": tier,
        "seed": base_seed,
        "level": spec.get("level", "exploration"),
        "coverage": cov,
        "assumptions": spec.get("assumptions", []),
        "wall_s": round(wall, 2),
        "violations": 1 if violation else 0,
    }
    if undecided:
        evd["undecided"] = [u[:2000] for u in undecided]
    if not replay:
        os.makedirs(os.path.dirname(evidence_path), exist_ok=True)
        with open(evidence_path + ".tmp", "w") as f:
            json.dump(evd, f, indent=1)
        os.replace(evidence_path + ".tmp", evidence_path)

    for fp, what in known:
        if replay or fp in finding_reproduced or known_hits.get(fp, 0) > 0:
            print("KNOWN-FINDING: property=%s %s [%s; saved case reproduced: %s; met %d more times by generated cases]" % (pid, what, fp, "yes" if fp in finding_reproduced else "not probed", known_hits.get(fp, 0)))
        else:
            print("note: the listed finding %s did not reproduce from its saved case on this tree and was not met by any generated case" % fp)
    if violation:
        print("violation detail: [%s] %s" % (violation[1], violation[2][:3000]))
        print("VIOLATION property=%s replay=%s" % (pid, violation[0]))
        rc = 1
    elif undecided:
        for u in undecided:
            log("UNDECIDED: " + u)
        rc = 2
    else:
        print("OK property=%s tier=%s evaluations=%d distinct_nontrivial=%d wall=%.1fs" % (pid, tier, ev, len(hashes), wall))
    if not keep:
        shutil.rmtree(work, ignore_errors=True)
    sys.stdout.flush()
    return rc
