"""Per-property check specifications (units = one test function each)."""
import os, sys, time
import vdriver

def U(test, pkg, quick, thorough=None, **kw):
    u = {"test": test, "pkg": pkg, "quick": quick}
    if thorough is not None:
        u["thorough"] = thorough
    u.update(kw)
    return u

def R(checks, shards=1, timeout=600, **kw):
    d = {"checks": checks, "shards": shards, "timeout": timeout}
    d.update(kw)
    return d

PROPS = {}

PROPS["C05"] = {
    "rule": "rapid-generated VAA values (payload 1..5000 biased to 999/1000/1001, 0..255 signatures) and structured byte "
            "mutations of valid encodings plus raw bytes; non-trivial = payload > 64 bytes, or a mutation applied to an "
            "encoding that has a signature block; distinct = distinct canonical case JSON (SHA-256)",
    "assumptions": ["reference wire codec in harness/common/refvaa.go is written from the property statement",
                    "trusted: go-ethereum Keccak256"],
    "units": [
        U("TestVerif_C05_Values", "./pkg/vaa", R(30000), R(150000, shards=16, timeout=900)),
        U("TestVerif_C05_Bytes", "./pkg/vaa", R(60000), R(300000, shards=16, timeout=900)),
    ],
}

def setup():
    """MANIFEST.setup_cmd: create stubs and warm the build cache for every harness binary."""
    work = os.path.join(vdriver.WORKROOT, "setup-%d" % os.getpid())
    os.makedirs(work, exist_ok=True)
    rc = 0
    try:
        vdriver.ensure_stubs()
        seen = set()
        for pid, spec in sorted(PROPS.items()):
            for u in spec["units"]:
                key = (u.get("module", "node"), u["pkg"], u.get("race", False))
                if key in seen:
                    continue
                seen.add(key)
                try:
                    vdriver.build_test_binary(work, *key)
                except vdriver.Undecided as e:
                    print("setup: %s" % e, file=sys.stderr)
                    rc = 1
    finally:
        import shutil
        shutil.rmtree(work, ignore_errors=True)
    return rc
