"""Per-property check specifications (units = one test function each)."""
import os, sys, time
import vdriver

def U(test, pkg, quick, thorough=None, **kw):
    u = {"test": test, "pkg": pkg, "quick": quick}
    if thorough is not None:
        u["thorough"] = thorough
    u.update(kw)
    return u

def R(checks, shards=1, timeout=600, **kw):
    d = {"checks": checks, "shards": shards, "timeout": timeout}
    d.update(kw)
    return d

PROPS = {}
PLAIN = {"checks": 0, "shards": 1, "timeout": 600}
NOT_APPLICABLE = {}

PROPS["C05"] = {
    "rule": "rapid-generated VAA values (payload 1..5000 biased to 999/1000/1001, 0..255 signatures) and structured byte "
            "mutations of valid encodings plus raw bytes; non-trivial = payload > 64 bytes, or a mutation applied to an "
            "encoding that has a signature block; distinct = distinct canonical case JSON (SHA-256)",
    "assumptions": ["reference wire codec in harness/common/refvaa.go is written from the property statement",
                    "trusted: go-ethereum Keccak256"],
    "units": [
        U("TestVerif_C05_Values", "./pkg/vaa", R(30000), R(150000, shards=16, timeout=900)),
        U("TestVerif_C05_Bytes", "./pkg/vaa", R(60000), R(300000, shards=16, timeout=900)),
        {"test": "FuzzUnmarshal", "kind": "fuzz", "fuzz": "FuzzUnmarshal", "as_test": "TestVerif_C05_Bytes", "pkg": ".", "thorough": {"fuzztime": "240s", "timeout": 900}},
    ],
}

PROPS["C04"] = {
    "rule": "rapid-generated VAA values (all field ranges, payload 0..3000, sub-second times) with a header variation and one "
            "single-field body mutation each; non-trivial = payload length differs from the suite's 6-byte vector and at least "
            "one body field sits on a boundary value",
    "assumptions": ["reference body/digest in harness/common/refvaa.go written from the statement", "go-ethereum keccak/ecrecover trusted", "contract side = interpreter of Messages.sol parseVM read steps and of governance.ral parseAndVerifyVAA as extracted from the current tree"],
    "units": [
        U("TestVerif_C04_Digest", "./pkg/vaa", R(40000), R(800000, shards=16, timeout=1500)),
        U("TestVerif_C04_Processor", "./pkg/processor", R(1500), R(40000, shards=16, timeout=1500)),
        U("TestVerif_C04_Contracts", "./pkg/vaa", R(1500), R(40000, shards=16, timeout=1500)),
        U("TestVerif_C04_Concurrent", "./pkg/vaa", R(300), R(6000, shards=8, timeout=1500)),
    ],
    "pre": lambda work: extract_contracts(work),
}

PROPS["C06"] = {
    "rule": "guardian lists of length 0..255 (optionally with repeated addresses), ascending signer subsets, zero or one "
            "corruption (body flip, swap, duplicate, re-index, outsider key, malformed recovery byte, zeroed r/s, list shorter "
            "than the indices); non-trivial = at least 4 signatures, or repeated addresses, or a corruption applied",
    "assumptions": ["reference verifier in harness/common/refvaa.go; trusted: go-ethereum Ecrecover/Keccak256",
                    "'no guardian counted twice' is read as: recovered signer addresses pairwise distinct (matters only for lists with repeated addresses)"],
    "units": [
        U("TestVerif_C06_Verify", "./pkg/vaa", R(4000), R(200000, shards=16, timeout=1500)),
    ],
}

PROC = "./pkg/processor"
PROPS["C01"] = {
    "rule": "stateful op lists (<= ~45 ops) over guardian-set updates (size 1..19, overlapping/disjoint membership, own key at "
            "every position or absent), local observations, own-signature loopbacks delivered when the script says, gossiped "
            "observations (valid / other digest / non-member / wrong address / bit flips / malformed), inbound signed VAAs (quorum, "
            "quorum-1, previous set, wrong order, duplicate signer, outsider, garbage, other subset for a stored id), injections, "
            "cleanup ticks; non-trivial = at least one VAA was stored or broadcast in the case",
    "assumptions": ["independent verifier refvaa (go-ethereum Ecrecover/Keccak trusted)", "handlers are called directly in the order Processor.Run would call them; the harness owns loopback timing"],
    "units": [U("TestVerif_C01_Safety", PROC, R(2500), R(80000, shards=16, timeout=1500)),
              U("TestVerif_C01_RunLoop", PROC, R(400, shards=2, shrinktime="20s"), R(6000, shards=16, timeout=1500, shrinktime="30s"))],
}
PROPS["C02"] = {
    "rule": "one multiset of events (local observation, own signature, valid observations from members, duplicates, invalid traffic, "
            "optional set update / peer VAA) executed in two generated orders and judged step by step by a reference model written "
            "from the statement, plus broad single-order histories; non-trivial = quorum reached with remote signatures involved",
    "assumptions": ["reference model in harness/node/pkg/processor/run_test.go", "publication is expected at the first *accepted observation* step at which observed && quorum holds"],
    "units": [U("TestVerif_C02_Model", PROC, R(1500), R(30000, shards=16, timeout=1500)),
              U("TestVerif_C02_Histories", PROC, R(1500), R(30000, shards=16, timeout=1500)),
              U("TestVerif_C01_RunLoop", PROC, R(400, shards=2, shrinktime="20s"), R(6000, shards=16, timeout=1500, shrinktime="30s"))],
}
PROPS["C03"] = {
    "rule": "reachable processor states (C01 generator without cleanup) in which every delivered observation is classified by an "
            "independent accept predicate; unacceptable ones must leave aggregation map, store and outbound channel untouched, "
            "acceptable ones must be recorded; sequences of signed heartbeats / re-observation requests, each valid or carrying one mutation (bit flips, "
            "other signer, claimed address of another member, other type's prefix, no prefix, raw-digest signature, signed length 30..40 around the 34-byte "
            "floor, undecodable body), with an optional guardian-set change in between; non-trivial = case contains a rejected mutated message and an accepted sibling",
    "assumptions": ["accept predicate: 65-byte signature recovers over the carried 32-byte hash to the claimed 20-byte address, which is in the applicable set (entry snapshot if the node observed the digest, else current set)",
                    "heartbeats / requests: prefix+body >= 34 bytes, signature over keccak(own prefix || body) recovers to the claimed address (BytesToAddress of the field), which is in the set passed in, body decodes; at the 15-node cap only the bound is asserted",
                    "the libp2p Run loop is not started; the two verifiers are the only state-changing entry points it calls for these message types"],
    "units": [U("TestVerif_C03_Observations", PROC, R(2500), R(50000, shards=16, timeout=1500)),
              U("TestVerif_C03_P2P", "./pkg/p2p", R(3000), R(80000, shards=16, timeout=1500)),
              U("TestVerif_C03_HeartbeatTable", "./pkg/p2p", R(300), R(3000, shards=4, timeout=1200)),
              U("TestVerif_C03_HeartbeatTableConcurrent", "./pkg/common", R(100, shards=2), R(4000, shards=16, timeout=1200), race=True, replay_tries=3, replay_repeat=4)],
}

PROPS["C13"] = {
    "rule": "adversarial op lists for the processor handlers (empty/huge payloads, zero / pre-1970 / post-2106 times, nil and short "
            "byte fields, undecodable inbound VAAs, injections before the first guardian set and with arbitrary set index, empty "
            "guardian sets, cleanup ticks with entry ages shifted by 1 s .. 8 days, store-then-reobserve) executed (a) by direct "
            "handler calls under recover and (b) through the real Run loop's channels; non-trivial = store-then-reobserve, or an "
            "injection before a set, or a cleanup tick with an entry older than 30 s",
    "assumptions": ["inputs are restricted to what producers can emit: non-nil messages with arbitrary (also nil) fields",
                    "the 30 s cleanup ticker of the Run loop is not awaited; cleanup is exercised by direct calls"],
    "units": [U("TestVerif_C13_Direct", PROC, R(3000), R(80000, shards=16, timeout=1500)),
              U("TestVerif_C13_RunLoop", PROC, R(300, shrinktime="20s"), R(12000, shards=16, timeout=1500, shrinktime="30s"), wallclock_fps=["C13/run-loop-stalled"]),
              # the loop's own cleanup ticker firing while observations stream in, under the race detector: the aggregation
              # state is touched by the loop's goroutine only
              # the settlement pass with a notifier configured: its notifications leave from goroutines nobody can recover
              U("TestVerif_C13_Notifier", PROC, R(600), R(20000, shards=16, timeout=1500), crash_is_violation=True),
              U("TestVerif_C13_RunLoopTicks", PROC, R(40, shrinktime="10s"), R(1500, shards=16, timeout=1500, shrinktime="20s"), race=True, wallclock_fps=["C13/run-loop-stalled"],
                replay_tries=2, replay_repeat=3)],
}

PROPS["C14"] = {
    "rule": "reachable aggregation states (signed-without-quorum, parked-only, completed, late-with-stored-VAA) followed by 3..60 cleanup "
            "ticks with generated gaps (1 s .. 10 h, biased to 30 s and to the 5 min / 1 h thresholds), further observations between ticks, "
            "request queues of capacity 0/1/2/50 drained or not; plus four deterministic histories that exhaust the 14400-retry budget; "
            "non-trivial = at least one retry and at least one expiry in the case",
    "assumptions": ["virtual time = shifting firstObserved/lastRetry of every entry (the only inputs the routine derives ages from); ages are kept 0.5 s off the whole-second thresholds and cases whose real execution could blur that are inconclusive",
                    "retry budget 14400 is the value at the pinned commit", "'about' is read as: lower bounds 4 min (parked) / 50 min (completed), upper bound two ticks after the threshold"],
    "units": [U("TestVerif_C14_Schedule", PROC, R(4000), R(100000, shards=16, timeout=1500), replay_tries=3, replay_repeat=3),
              U("TestVerif_C14_Budget", PROC, {"checks": 0, "shards": 1, "timeout": 600}, {"checks": 0, "shards": 1, "timeout": 600}, kind="plain"),
              U("TestVerif_C14_RunLoopTicks", PROC, PLAIN, PLAIN, kind="plain")],
}

PROPS["C12"] = {
    "rule": "multisets of signed VAAs over an adversarial id alphabet (chains 0,1,2,4,10,11,17,25,42,255,256,10001,65535; three emitters incl. the "
            "governance emitter; sequences incl. 2^32 and 2^64-1; overwrites with different signature sets) followed by point lookups (ids and "
            "near misses, store API and public RPC), gap scans, batch and governance-batch queries, all compared with a Go map; non-trivial = the "
            "store holds two streams of one emitter whose chain ids are decimal prefixes of each other",
    "assumptions": ["firstSeq == 0 is pinned by the repository's own test and taken as specified", "RPC handlers are called directly (no gRPC transport)"],
    "units": [U("TestVerif_C12_Store", "./pkg/publicrpc", R(2500), R(9000, shards=16, timeout=1500)),
              U("TestVerif_C12_FindMissing", "./cmd/guardiand", R(1500), R(8000, shards=16, timeout=1500))],
}

def extract_contracts(work):
    """pre-step of the cross-language checks: contracts/extract.py on the current tree -> VERIF_CONTRACTS"""
    import subprocess
    out = os.path.join(work, "contracts.json")
    r = subprocess.run([sys.executable, os.path.join(vdriver.VERIF, "contracts", "extract.py"), vdriver.REPO, out], capture_output=True, text=True)
    if r.returncode != 0:
        raise vdriver.Undecided("contract source refactored beyond the extractor: %s" % (r.stderr.strip() or r.stdout.strip()))
    os.environ["VERIF_CONTRACTS"] = out

PROPS["C07"] = {
    "rule": "exhaustive n = 0..255: CalculateQuorum(n) == floor(2n/3)+1 == the expression extracted from Messages.sol quorum() == the "
            "quorumSize expression extracted from governance.ral, BFT inequalities for n >= 1; behaviourally the interpreted Ralph "
            "parseAndVerifyVAA and the Solidity verification semantics accept q but not q-1 valid signatures (subset of n in quick, all n in "
            "thorough); histories of the processor whose every published VAA must be accepted by both contract verifiers; sampled n up to 1e6; "
            "non-trivial = n >= 1 (table rows) / a published VAA (histories)",
    "exhaustive": True,
    "assumptions": ["contract side = interpreter of formulas/functions extracted from the contract sources of the current tree (no Solidity/Ralph compiler offline)",
                    "explorer-backend evaluates the cached node module's CalculateQuorum; checked under C19"],
    "pre": extract_contracts,
    "units": [U("TestVerif_C07_Table", PROC, PLAIN, PLAIN, kind="plain"),
              U("TestVerif_C07_ContractsAccept", PROC, R(800), R(30000, shards=16, timeout=1500)),
              U("TestVerif_C07_LargeN", PROC, R(20000), R(500000, shards=4, timeout=600))],
}

PROPS["C16"] = {
    "level": "fault_enumeration",
    "rule": "per case one store directory and 2..6 cycles; in each cycle a child process (the test binary re-executed) stores 1..60 generated VAAs "
            "(ids from a space of 3/8/40 so that overwrites occur, payloads 1 B..100 KB) and acknowledges each successful StoreSignedVAA on "
            "stdout; it is SIGKILLed by itself right after the k-th acknowledgement, by the parent on reading the k-th acknowledgement, after a "
            "0..300 ms delay, or exits without Close; the parent reopens the directory and checks every id acknowledged in any cycle; "
            "non-trivial = a cycle killed with at least one acknowledgement and at least one write in flight",
    "assumptions": ["SIGKILL of the process (page cache survives): the quantifier of the property, not power loss", "kill instants are sampled in real time, not enumerated",
                    "in-flight = attempted after the last acknowledgement of that id"],
    "units": [U("TestVerif_C16_KillCycles", "./pkg/db", R(12, shards=4, shrinktime="20s", timeout=600), R(500, shards=16, shrinktime="60s", timeout=1800), replay_tries=3, replay_repeat=8),
              U("TestVerif_C16_CrashDuringOpen", "./pkg/db", PLAIN, PLAIN, kind="plain"),
              U("TestVerif_C16_BackToBackKills", "./pkg/db", PLAIN, PLAIN, kind="plain", replay_tries=3),
              U("TestVerif_C16_ManyCycles", "./pkg/db", PLAIN, PLAIN, kind="plain", replay_tries=2)],
}

GD = "./cmd/guardiand"
PROPS["C17"] = {
    "rule": "op lists over request(chain in {1,2,4 known; 3, 65537, 65538, 131074 unknown}, tx from a pool of 3), advance(1 s..25 min, biased to the 11/18 min "
            "bounds), drain(chain) against the real dispatcher goroutine under benbjohnson/clock.Mock with watcher queues of capacity 0..3; plus "
            "PostObservationRequest on queues of every fill level; non-trivial = at least one suppressed duplicate and one re-forward after the window",
    "assumptions": ["a request for an unknown chain is used as a barrier (returns when the dispatcher is back in select); clock advances are split into <= 6 min steps so no purge tick is coalesced",
                    "a request between 11 and 18 minutes after the last forward may go either way", "a suspected miss after the window is re-executed with a 60-barrier settle before it counts"],
    "units": [U("TestVerif_C17_Dispatcher", GD, R(400), R(24000, shards=16, timeout=1800)),
              U("TestVerif_C17_Post", GD, R(2000), R(80000, shards=4, timeout=900))],
}

PROPS["C15"] = {
    "rule": "requests of each of the nine governance kinds (and messages without payload) with fields across and beyond their wire ranges (chain ids and "
            "consistency levels up to 2^32-1, 0..70000 sequences, module names of 0..54 bytes, hex strings with wrong length / odd digits / bad characters / "
            "0x prefix, 0..21 guardians incl. malformed keys, raw and structured upgrade payloads); a produced VAA is signed by a one-guardian set and "
            "run through the Ralph entry point extracted from the current contract sources, whose resulting state/effects must equal the requested values "
            "as mathematical integers; batches through InjectGovernanceVAA; non-trivial = a field outside its wire range, a non-canonical module, or a message without payload",
    "assumptions": ["contract side = interpreter of governance.ral / token_bridge_governance.ral / token_bridge_factory.ral functions extracted from the current tree",
                    "contract aborts with a semantic error code (empty sequence list, own chain, state-hash mismatch) are not layout failures", "current set index 2^32-1 excluded (no successor index exists)"],
    "pre": extract_contracts,
    "units": [U("TestVerif_C15_Conversions", GD, R(6000), R(400000, shards=16, timeout=1500)),
              U("TestVerif_C15_Inject", GD, R(1500), R(100000, shards=16, timeout=1500), replay_tries=2, replay_repeat=3)],
}

PROPS["C18"] = {
    "rule": "supervision trees up to depth 3 (<= 2 groups x <= 3 members per node) whose services follow generated per-incarnation behaviours: run until "
            "cancelled (exit latency 0..20 ms), fail after 0..40 ms by error / nil return / panic / an error wrapping context.Canceled, or signal Done; "
            "the supervisor's context is cancelled after 300..500 ms; executed under the race detector; non-trivial = failures in two different "
            "groups or a failure at depth 3",
    "assumptions": ["services shorten their own node's back-off to 1..5 ms through in-package access; the bound checked is then the configured one",
                    "failures in the last 250 ms before the cancel are not judged; a machine whose 1 ms timer fires > 100 ms late makes the time bounds inconclusive (the at-most-one-instance invariant is still judged)",
                    "interleavings inside the supervisor are sampled, not enumerated"],
    "units": [U("TestVerif_C18_Trees", "./pkg/supervisor", R(48, shards=8, shrinktime="30s", timeout=900), R(640, shards=16, shrinktime="60s", timeout=1500), race=True, crash_is_violation=True, replay_tries=4, replay_repeat=10,
                wallclock_fps=["C18/failed-service-not-restarted", "C18/group-sibling-not-cancelled", "C18/not-stopped-by-cancel"])],
}

PROPS["C20"] = {
    "rule": "1..6 subscriptions with 0..3 emitter filters (matching / non-matching / duplicate / same chain other address) on fake gRPC streams, streams of "
            "decodable and undecodable VAAs over a 3x3 emitter alphabet, subscribers that stall (Send blocks), resume or disconnect at generated points; "
            "every operation under a 2 s watchdog; run under the race detector; non-trivial = two subscribers with different filter sets and at least one stall or disconnect",
    "assumptions": ["consecutive duplicate deliveries caused by duplicate filters are collapsed (the statement does not forbid them)",
                    "the gRPC transport is replaced by in-process fake streams whose Send honours the stream context",
                    "known finding C20/blocked-behind-unread-subscriber is excluded by construction: a third unread VAA for a subscriber that stopped reading is not published while the finding is listed"],
    "units": [U("TestVerif_C20_Spy", "./cmd/spy", R(600, shards=4, timeout=900), R(20000, shards=16, timeout=1500), race=True, crash_is_violation=True, replay_tries=3, replay_repeat=4,
                wallclock_fps=["C20/operation-blocked", "C20/not-delivered"])],
}

EX = "explorer-backend"
PROPS["C19"] = {
    "rule": "(gate) guardian-set histories of 1..5 sets (sizes 1..19, partially overlapping membership) and sequences of pushes of VAAs that are valid / quorum-1 / "
            "signed by an outsider / wrongly ordered / unsigned, signed by set i while naming set j or a future set, with duplicates, on persistence queues of "
            "capacity 0..2 drained at generated points; (lookup) 1..4 goroutines calling GetGuardianSet(i) for existing i while 0..12 contiguous batches "
            "(optionally repeating known sets) are appended, under the race detector; non-trivial = a VAA naming another set than the one that signed it, "
            "or a lookup run with at least one append",
    "assumptions": ["independent verifier refvaa; the explorer is built against the node module version pinned in its go.mod, as the repository builds it",
                    "the chain RPC is an unreachable unix path, so a VAA naming an unknown set can only be refused", "duplicate suppression itself (ristretto, asynchronous) is not asserted"],
    "units": [U("TestVerif_C19_Gate", "./processor", R(1500), R(40000, shards=16, timeout=1500), module=EX, replay_tries=3, replay_repeat=6),
              U("TestVerif_C19_Lookup", "./guardiansets", R(150, shards=2, timeout=900), R(3000, shards=16, timeout=1500), module=EX, race=True, crash_is_violation=True, replay_tries=3, replay_repeat=5),
              U("TestVerif_C19_FutureLookup", "./guardiansets", R(300, shards=2, timeout=900), R(6000, shards=16, timeout=1500), module=EX, race=True, crash_is_violation=True)],
}
PROPS["C07"]["units"].append(U("TestVerif_C07_ExplorerQuorum", "./processor", PLAIN, PLAIN, kind="plain", module=EX))
PROPS["C07"]["units"].append(U("TestVerif_C07_ExplorerThreshold", "./processor", PLAIN, PLAIN, kind="plain", module=EX))
PROPS["C06"]["units"].append(U("TestVerif_C06_ExplorerVerify", "./processor", R(1500), R(60000, shards=16, timeout=1500), module=EX))
# C07: "a VAA the node considers complete" needs the node to *consider* it complete at exactly floor(2n/3)+1: the
# step-by-step publication model of C02 (publishes as soon as a quorum of the applicable set has been delivered, not
# before) runs under C07 too
PROPS["C07"]["units"].append(U("TestVerif_C02_Histories", PROC, R(1000), R(20000, shards=16, timeout=1500)))
# C17 is anchored in cleanup.go as well (the processor posts its re-observation requests to the outbound queue from
# the cleanup pass, which must not stall on a full queue): the C14 schedule unit, whose cases include full request
# queues of capacity 0..2, runs under C17 too
PROPS["C17"]["units"].append(U("TestVerif_C14_Schedule", PROC, R(1500), R(30000, shards=16, timeout=1500), replay_tries=3, replay_repeat=3))
# C06 is anchored in observation.go as well (where the node applies the verification to gossip): the processor units
# of C01 and C03 run under C06 too, with smaller budgets
PROPS["C06"]["units"].append(U("TestVerif_C01_Safety", PROC, R(800), R(20000, shards=16, timeout=1500)))
# C05 / C06: encoding and verification go through the same body serialisation and digest; the held-body and the
# concurrent-use units of C04 run under both (an encoding or a verification that depends on what other goroutines
# serialise at the same time is neither a round trip nor "accepts exactly valid signatures")
PROPS["C05"]["units"].append(U("TestVerif_C04_Digest", "./pkg/vaa", R(10000), R(200000, shards=16, timeout=1500)))
PROPS["C05"]["units"].append(U("TestVerif_C04_Concurrent", "./pkg/vaa", R(300), R(6000, shards=8, timeout=1500)))
PROPS["C06"]["units"].append(U("TestVerif_C04_Concurrent", "./pkg/vaa", R(300), R(6000, shards=8, timeout=1500)))
# C03: a signature of a non-member must not count towards completing a VAA either (the signatures kept per digest
# outlive guardian-set changes): the C01 safety histories, whose every published VAA is verified against the set it
# names, run under C03 too
PROPS["C03"]["units"].append(U("TestVerif_C01_Safety", PROC, R(1500), R(20000, shards=16, timeout=1500)))
# C07: the threshold the node applies is the one of the set the VAA names, also when the loop learns of a new set in
# the middle of an aggregation, and also for VAAs accepted from peers: the Run-loop safety unit and C01's histories
PROPS["C07"]["units"].append(U("TestVerif_C01_RunLoop", PROC, R(300, shards=2), R(6000, shards=16, timeout=1500)))
PROPS["C07"]["units"].append(U("TestVerif_C01_Safety", PROC, R(1500), R(20000, shards=16, timeout=1500)))
PROPS["C06"]["units"].append(U("TestVerif_C03_Observations", PROC, R(800), R(20000, shards=16, timeout=1500)))
PROPS["C19"]["units"].append(U("TestVerif_C19_DedupInterleavings", "./deduplicator", R(800, shards=2), R(30000, shards=16, timeout=1500), module=EX, race=True, replay_tries=2, replay_repeat=3))
PROPS["C19"]["units"].append(U("TestVerif_C06_ExplorerVerify", "./processor", R(800), R(20000, shards=16, timeout=1500), module=EX))

ALPH = "./pkg/alephium"
PROPS["C11"] = {
    "rule": "six-field events whose values sit on and around every boundary of the statement (0, 255, 256, 65535, 65536, 2^64-1, 2^64, 2^256-1), random in-range values, "
            "non-numeric / signed / decorated decimal strings, wrong type tags, nil variants, 0/5/7 fields, swapped fields, nonce of 0..8 bytes, malformed hex, payload "
            "0..1200 bytes, millisecond block timestamps; contract-id/address and hex conversions on well- and malformed ids; attestations produced by interpreting "
            "token_bridge.ral attestToken + governance.ral publishWormholeMessage from the current tree and decoded by the node; non-trivial = a field on a listed boundary",
    "assumptions": ["a numeric field is whatever Go's base-10 integer parser accepts (incl. a sign); whether it fits is decided on its value", "contract side = interpreter of the Ralph sources of the current tree; event fields are reported in declaration order"],
    "pre": extract_contracts,
    "units": [U("TestVerif_C11_Fields", ALPH, R(60000), R(3000000, shards=16, timeout=1500)),
              U("TestVerif_C11_Conversions", ALPH, R(20000), R(200000, shards=8, timeout=900)),
              U("TestVerif_C11_Attest", ALPH, R(3000), R(200000, shards=16, timeout=1500))],
}

PROPS["C10"] = {
    "rule": "the real Watcher.Run (BSC-like: latest blocks, consistency level = confirmations; Ethereum-like: finalized blocks) under a supervisor against a simulated EVM node "
            "(go-ethereum rpc.Server on a unix socket) stepped one operation at a time: logs from the core contract / another contract / another topic (also mixed in one "
            "transaction), consistency level 0..255, head advancing by 1..200, reorgs (block replaced, receipt gone, status 0, re-mined later), transient faults on receipt and "
            "head lookups, re-observation requests; closing jump of maxCL+2 blocks; non-trivial = a reorg or a head jump >= 10 and at least one forwarded message",
    "assumptions": ["safety is judged against the server-side response log (last receipt answer and highest head served before the message arrived)",
                    "exactly-once is judged only for cases without re-observation requests and without watcher restarts; a message may be absent only if the node's last answer for its receipt was an error",
                    "a step that does not settle within 3 s makes the case inconclusive", "faults are confined to receipt lookups and fewer than three consecutive head polls (more ends Run by design)"],
    "units": [U("TestVerif_C10_Watcher", "./pkg/ethereum", R(300, shards=8, timeout=900, shrinktime="60s"), R(12000, shards=16, timeout=1800, shrinktime="120s"), replay_tries=3, replay_repeat=4)],
}

_ALPH_RULE = ("the real Watcher.Run under a supervisor against a simulated Alephium node (http.RoundTripper), 1 ms poll interval, stepped one operation at a time: "
              "token-bridge and foreign-caller messages (transfer / attestation confirmed, contradicted or unanswerable by the token contract / other / empty payload), "
              "consistency level 0..255, blocks old enough or too recent for the wall-clock floor, look-alike events of other contracts in the same transaction, malformed events "
              "(wrong field count, out-of-range values, bad hex, wrong types, other event index), bursts with further events appended right after a count request, page size 1..100, "
              "height advancing by 1..300, blocks orphaned with or without re-inclusion of the transaction")
PROPS["C08"] = {
    "rule": _ALPH_RULE + ", re-observation requests and node API errors on any endpoint; non-trivial = hostile / orphaned / look-alike events present and at least one message forwarded",
    "assumptions": ["safety is judged against the simulator's ground truth and its response log (last main-chain and height answers before the message arrived)",
                    "block timestamps are kept 60 s away from every wall-clock threshold", "field fidelity is C11's job"],
    "units": [U("TestVerif_C08_Watcher", ALPH, R(200, shards=8, timeout=900, shrinktime="60s"), R(8000, shards=16, timeout=1800, shrinktime="120s"), replay_tries=3, replay_repeat=6, crash_is_violation=True)],
}
PROPS["C09"] = {
    "rule": _ALPH_RULE + "; no injected faults; after the script the chain height rises by 260 and every well-formed token-bridge message in a main-chain block must have been forwarded exactly once by the polling "
            "path; at no time more than 200 page requests without a count request, no exit of Run, no process crash; non-trivial = hostile events or an append between count and page request, and at least one message forwarded",
    "assumptions": ["'eventually' is replaced by a bound: three further poll rounds after the closing height jump", "events that exist before the watcher's first count request are out of scope (it starts from the current count)",
                    "API faults make Run exit by design and are exercised under C08's safety oracle only"],
    "units": [U("TestVerif_C09_Watcher", ALPH, R(200, shards=8, timeout=900, shrinktime="60s"), R(10000, shards=16, timeout=1800, shrinktime="120s"), replay_tries=3, replay_repeat=6, crash_is_violation=True,
                # "never handed over" is judged once the request log has been quiet for two poll rounds of real time
                wallclock_fps=["C09/message-never-observed"])],
}

# The thorough tier has to complete within a session for all twenty properties (several units run under more than one
# property): the per-shard case counts of the large units are halved, which keeps every property under about ten minutes
# on 16 cores.
for _spec in PROPS.values():
    for _u in _spec["units"]:
        if _u.get("kind", "rapid") == "rapid" and "thorough" in _u and _u["thorough"]["checks"] >= 6000:
            _u["thorough"] = dict(_u["thorough"], checks=_u["thorough"]["checks"] // 2)

def setup():
    """MANIFEST.setup_cmd: create stubs and warm the build cache for every harness binary."""
    work = os.path.join(vdriver.WORKROOT, "setup-%d" % os.getpid())
    os.makedirs(work, exist_ok=True)
    rc = 0
    try:
        vdriver.ensure_stubs()
        seen = set()
        for pid, spec in sorted(PROPS.items()):
            for u in spec["units"]:
                if u.get("kind") == "fuzz":
                    continue
                key = (u.get("module", "node"), u["pkg"], u.get("race", False))
                if key in seen:
                    continue
                seen.add(key)
                try:
                    vdriver.build_test_binary(work, *key)
                except vdriver.Undecided as e:
                    print("setup: %s" % e, file=sys.stderr)
                    rc = 1
    finally:
        import shutil
        shutil.rmtree(work, ignore_errors=True)
    return rc
